#!/bin/sh
# Builds the verifier from the files on disk (vendored dependencies, no network, no module cache needed).
set -e
cd /verif/govc
export GOFLAGS=-mod=vendor GOPROXY=off GOSUMDB=off GOTOOLCHAIN=local CGO_ENABLED=0
mkdir -p /verif/bin
go build -o /verif/bin/govc .
echo "govc built"
