#!/usr/bin/env python3
"""Regenerates /verif/MANIFEST.json from /verif/claims.json (per-property claim texts) and properties.jsonl."""
import json, subprocess
props = [json.loads(l) for l in open('/verif/properties.jsonl')]
claims = json.load(open('/verif/claims.json'))
hooks = subprocess.run(['git', '-C', '/repo', 'log', '--format=%H %s'], capture_output=True, text=True).stdout.splitlines()
hook_commits = [l.split()[0] for l in hooks if ' verif hooks:' in l]
checks, na = [], []
for p in props:
    c = claims.get(p['id'])
    if not c or c.get('not_applicable'):
        na.append({"property_id": p['id'], "reason": (c or {}).get('not_applicable', 'check not built yet (work in progress)')})
        continue
    checks.append({
        "property_id": p['id'],
        "quick_cmd": f"./check {p['id']} quick",
        "thorough_cmd": f"./check {p['id']} thorough",
        "evidence_file": f"/verif/evidence/{p['id']}.json",
        "replay_cmd_template": "./check --replay {path}",
        "engine": "govc",
        "level_claimed": {"category": "proof", "text": c['text'], "design_ref": c.get('design_ref', 'DESIGN.md section 7')},
        "level_note": c['note'],
        "technique": c.get('technique', 'contract-based deductive verification: weakest-precondition VCs over go/ssa of the real code, //@ contracts, discharged by z3/cvc5'),
    })
m = {
    "version": 1,
    "setup_cmd": "sh /verif/setup.sh",
    "hooks": {"guard": "verif", "enable": "-tags verif (adds only comment-only zz_contracts_verif.go files; govc reads the //@ contract lines as text)",
              "baseline_off_cmd": "cd /repo && go test -mod=mod -json -vet=off -count=1 -timeout 25m ./...",
              "source_commits": hook_commits, "add_only": True},
    "engines": [{"name": "govc", "path": "/verif/govc", "serves_properties": [c['property_id'] for c in checks],
                 "kind_free_text": "self-written deductive verifier for Go: go/packages + go/ssa of /repo's working tree, Gobra-style //@ contracts in build-tag-guarded comment files, weakest-precondition verification conditions (flat typed heap, loop invariants, frames, call-site obligations), SMT back ends z3 5.1.0 / z3 4.8.12 / cvc5 1.0"}],
    "checks": checks,
    "notes": "See DESIGN.md. Known findings: /verif/known_findings.json. Seeded changes: /verif/seeded/.",
    "not_applicable": na,
}
json.dump(m, open('/verif/MANIFEST.json', 'w'), indent=1)
print("checks:", [c['property_id'] for c in checks], "n/a:", [n['property_id'] for n in na])
