#!/bin/sh
# usage: mkbenign.sh <Cxx> <name> <repo-relative file> <sed expression>   — writes /verif/benign/<Cxx>/<name>.diff (a change that must NOT alarm)
p="$1"; n="$2"; f="$3"; e="$4"
d=$(mktemp -d /tmp/mkben.XXXXXX)
mkdir -p "$d/a/$(dirname "$f")" "$d/b/$(dirname "$f")" "/verif/benign/$p"
cp "/repo/$f" "$d/a/$f"; sed "$e" "/repo/$f" > "$d/b/$f"
( cd "$d" && diff -u "a/$f" "b/$f" > "/verif/benign/$p/$n.diff" )
if [ ! -s "/verif/benign/$p/$n.diff" ]; then echo "benign $n: sed changed nothing"; rm -f "/verif/benign/$p/$n.diff"; fi
rm -rf "$d"
