#!/usr/bin/env python3
"""z3 unsat core of a kept SMT query (debug aid). usage: z3core.py file.smt2 [timeout]"""
import sys, subprocess, re
src = open(sys.argv[1]).read().splitlines()
to = sys.argv[2] if len(sys.argv) > 2 else '60'
out = ['(set-option :produce-unsat-cores true)']; names = {}
for i, l in enumerate(src):
    if l.startswith('(check-sat') or l.startswith('(get-model'): continue
    if l.startswith('(assert '):
        n = 'a%d' % i; names[n] = l
        out.append('(assert (! %s :named %s))' % (l[len('(assert '):-1], n))
    else: out.append(l)
out += ['(check-sat)', '(get-unsat-core)']
open('/tmp/_z3core.smt2', 'w').write("\n".join(out))
r = subprocess.run(['z3-new', '-T:' + to, '/tmp/_z3core.smt2'], capture_output=True, text=True).stdout
print(r.splitlines()[0])
core = re.findall(r'a\d+', r.split('\n', 1)[1] if '\n' in r else '')
print(len(core), 'of', len(names), 'asserts in core')
keep = [l for i, l in enumerate(src) if not l.startswith('(assert ') or ('a%d' % i) in core]
open('/tmp/_z3core_min.smt2', 'w').write("\n".join(keep))
for n in core: print(names[n][:int(sys.argv[3]) if len(sys.argv) > 3 else 300]); print()
