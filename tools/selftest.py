#!/usr/bin/env python3
"""Must-fail corpus runner: applies every seeded change (/verif/seeded/*/patch.diff) and every mutant
(/verif/mutants/<Cxx>/*.patch) to a scratch copy of /repo (outside /repo and /verif), runs the quick check of the
property it breaks there, and records whether a VIOLATION is reported. Updates seeded/*/meta.json (detected_by)
and prints a table. Usage: selftest.py [Cxx ...]"""
import glob, json, os, re, shutil, subprocess, sys, tempfile
from concurrent.futures import ThreadPoolExecutor
claimed = {c["property_id"] for c in json.load(open("/verif/MANIFEST.json"))["checks"]}
sel = [a for a in sys.argv[1:] if not a.startswith("-")]
cases = []
for d in sorted(glob.glob("/verif/seeded/*/")):
    meta = json.load(open(d + "meta.json"))
    cases.append(("seeded/" + meta["id"], meta["property"], d + "patch.diff", d + "meta.json"))
for p in sorted(glob.glob("/verif/mutants/*/*.patch") + glob.glob("/verif/mutants/*/*.diff")):
    pid = p.split("/")[-2]
    cases.append(("mutants/" + pid + "/" + os.path.basename(p), pid, p, None))
if sel:
    cases = [c for c in cases if c[1] in sel]
if "--mutants-only" in sys.argv:
    cases = [c for c in cases if c[0].startswith("mutants/")]
if "--new" in sys.argv and os.path.exists("/verif/selftest_result.json"):
    done = {r["case"] for r in json.load(open("/verif/selftest_result.json")) if r["status"] == "DETECTED"}
    cases = [c for c in cases if c[0] not in done]

if os.environ.get("SELFTEST_CASES"):   # comma-separated case names (seeded/C01-11,...): re-run exactly these
    want = set(os.environ["SELFTEST_CASES"].split(","))
    cases = [c for c in cases if c[0] in want]

REPLAYS = {}

def run(case):
    name, pid, patch, metaf = case
    d = tempfile.mkdtemp(prefix="selftest-", dir="/tmp")
    try:
        subprocess.run(["rsync", "-a", "--exclude", ".git", "/repo/", d + "/repo/"], check=True)
        p = subprocess.run(["patch", "-p1", "-s", "-i", patch], cwd=d + "/repo", capture_output=True, text=True)
        if p.returncode != 0:
            return case, "PATCH-FAILED", []
        env = dict(os.environ, GOVC_REPO=d + "/repo", GOVC_OUT=d + "/out", GOFLAGS="-mod=mod", GOPROXY="off", GOSUMDB="off", GOTOOLCHAIN="local")
        r = subprocess.run(["/verif/bin/govc", "check", "-p", pid], env=env, capture_output=True, text=True)
        obls = re.findall(r"^  failed: (\S+)", r.stdout, re.M)
        vio = "VIOLATION property=" + pid in r.stdout
        inputs = []
        for m in re.finditer(r"^VIOLATION property=\S+ replay=(\S+)$", r.stdout, re.M):   # lines without no-failing-input-found
            try:
                rj = json.load(open(m.group(1)))
                inputs.append({"obligation": rj.get("obligation"), "failing_input": rj.get("failing_input", "")[:600]})
            except Exception:
                pass
        REPLAYS[name] = inputs
        status = "DETECTED" if (r.returncode == 1 and vio) else ("not-detected" if r.returncode == 0 else f"ERROR rc={r.returncode}: " + (r.stderr or r.stdout)[-200:])
        return case, status, obls
    finally:
        shutil.rmtree(d, ignore_errors=True)

with ThreadPoolExecutor(max_workers=2) as ex:
    results = list(ex.map(run, cases))
det = 0
for (name, pid, patch, metaf), status, obls in results:
    note = "" if pid in claimed else " (property not claimed yet)"
    print(f"{name:55s} {pid} {status}{note} {', '.join(o.split('/',1)[-1] if '/' in o else o for o in obls[:3])}")
    det += status == "DETECTED"
    if metaf:
        m = json.load(open(metaf))
        m["detected_by"] = {"check": f"./check {pid} quick", "result": status, "failing_obligations": obls[:8]} if status == "DETECTED" else {"check": f"./check {pid} quick", "result": status}
        json.dump(m, open(metaf, "w"), indent=1)
print(f"{det}/{len(results)} detected")
new = [{"case": n, "property": pid, "status": st, "failing_obligations": ob[:4], "replayed_inputs": REPLAYS.get(n, [])} for (n, pid, _, _), st, ob in results]
if ("--new" in sys.argv or sel or "--mutants-only" in sys.argv or os.environ.get("SELFTEST_CASES")) and os.path.exists("/verif/selftest_result.json"):
    old = [r for r in json.load(open("/verif/selftest_result.json")) if r["case"] not in {x["case"] for x in new}]
    new = sorted(old + new, key=lambda r: r["case"])
json.dump(new, open("/verif/selftest_result.json", "w"), indent=1)
