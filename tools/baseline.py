#!/usr/bin/env python3
"""Run notation-go's pinned test suite (guard off) and compare with /root/.vp/BASELINE.json stable_pass."""
import json, os, subprocess, sys
repo = sys.argv[1] if len(sys.argv) > 1 else "/repo"
env = dict(os.environ, GOFLAGS="-mod=mod", GOPROXY="off", GOSUMDB="off", GOTOOLCHAIN="local")
p = subprocess.run(["go", "test", "-mod=mod", "-json", "-vet=off", "-count=1", "-timeout", "25m", "./..."],
                   cwd=repo, env=env, capture_output=True, text=True)
res = {}
for line in p.stdout.splitlines():
    try:
        e = json.loads(line)
    except Exception:
        continue
    if e.get("Test") and e.get("Action") in ("pass", "fail", "skip"):
        res[e["Package"] + "::" + e["Test"]] = e["Action"]
base = json.load(open("/root/.vp/BASELINE.json"))["stable_pass"]
bad = [t for t in base if res.get(t) != "pass"]
print(f"baseline stable_pass={len(base)} passing_now={len(base)-len(bad)}")
for t in bad[:40]:
    print("NOT PASSING:", t, res.get(t))
sys.exit(1 if bad else 0)
