#!/bin/sh
# usage: replaycheck.sh <patch> <Cxx>   — like seedcheck.sh but prints, per failed obligation, what the replay search did
patch="$1"; p="$2"
d=$(mktemp -d /tmp/rpchk.XXXXXX)
rsync -a --exclude .git /repo/ "$d/repo/"
( cd "$d/repo" && patch -p1 -s < "$patch" ) || { echo "PATCH FAILED"; rm -rf "$d"; exit 3; }
export GOFLAGS=-mod=mod GOPROXY=off GOSUMDB=off GOTOOLCHAIN=local
GOVC_REPO="$d/repo" GOVC_OUT="$d/out" /verif/bin/govc check -p "$p" | grep -E "^(property)" 
python3 - "$d" <<'PY'
import json,glob,sys
for f in sorted(glob.glob(sys.argv[1]+'/out/replays/*.json')):
    r=json.load(open(f))
    print(' ', r['obligation'][:90], '->', r.get('replay'), '|', (r.get('replay_note') or '')[:300].replace('\n',' '), '|', (r.get('failing_input') or '')[:300])
PY
rm -rf "$d"
