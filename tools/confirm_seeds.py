#!/usr/bin/env python3
"""Confirms staged seeded changes (/tmp/seedstage/<Cxx>/changeN.diff + demoN_test.go) on scratch copies of /repo:
   compiles, baseline suite unchanged (700 stable tests pass), demo FAILS with the change and PASSES without.
   Confirmed ones are stored as /verif/seeded/<Cxx>-<N>/ (patch.diff, demo_test.go, notes.md, meta.json)."""
import json, os, re, shutil, subprocess, sys, tempfile
from concurrent.futures import ThreadPoolExecutor
ENV = dict(os.environ, GOFLAGS="-mod=mod", GOPROXY="off", GOSUMDB="off", GOTOOLCHAIN="local")
BASE = json.load(open("/root/.vp/BASELINE.json"))["stable_pass"]
props = {json.loads(l)["id"]: json.loads(l) for l in open("/verif/properties.jsonl")}

def run(cmd, cwd, timeout=1500):
    p = subprocess.run(cmd, cwd=cwd, env=ENV, capture_output=True, text=True, timeout=timeout)
    return p.returncode, p.stdout + p.stderr

def suite_ok(d):
    rc, out = run(["go", "test", "-mod=mod", "-json", "-vet=off", "-count=1", "-timeout", "25m", "./..."], d)
    res = {}
    for line in out.splitlines():
        try:
            e = json.loads(line)
        except Exception:
            continue
        if e.get("Test") and e.get("Action") in ("pass", "fail", "skip"):
            res[e["Package"] + "::" + e["Test"]] = e["Action"]
    bad = [t for t in BASE if res.get(t) != "pass"]
    return len(bad) == 0, bad[:5]

STAGE = os.environ.get("SEED_STAGE", "/tmp/seedstage")   # <STAGE>/<Cxx>/changeN.diff or <STAGE>/<Cxx>/out/changeN.diff
OFFSET = int(os.environ.get("SEED_OFFSET", "0"))         # stored as <Cxx>-<N+OFFSET>

def stagedir(pid):
    d = f"{STAGE}/{pid}"
    return d + "/out" if os.path.isdir(d + "/out") else d

def confirm(pid, n):
    st = stagedir(pid)
    patch, demo = f"{st}/change{n}.diff", f"{st}/demo{n}_test.go"
    if not (os.path.exists(patch) and os.path.exists(demo)):
        return pid, n, "missing files", None
    first = open(demo).readline()
    m = re.search(r"dir:\s*(\S+)", first)
    pkgdir = m.group(1).strip("`") if m else "."
    if pkgdir in ("(module", "module", "root", "."):
        pkgdir = "."
    d = tempfile.mkdtemp(prefix=f"seedconf-{pid}-{n}-", dir="/tmp")
    try:
        subprocess.run(["rsync", "-a", "--exclude", ".git", "/repo/", d + "/"], check=True)
        tgt = os.path.join(d, pkgdir)
        if not os.path.isdir(tgt):
            return pid, n, f"demo dir {pkgdir} not found", None
        demoname = f"zz_seed_demo{n}_test.go"
        # 1. demo passes on the unchanged tree
        shutil.copy(demo, os.path.join(tgt, demoname))
        rc0, out0 = run(["go", "test", "-vet=off", "-count=1", "-timeout", "10m", "-run", "Demo|C1[0-9]_|C0[0-9]_|C20_", "./" + pkgdir], d)
        os.remove(os.path.join(tgt, demoname))
        # 2. apply change
        p = subprocess.run(["patch", "-p1", "-s", "-i", patch], cwd=d, capture_output=True, text=True)
        if p.returncode != 0:
            return pid, n, "patch does not apply: " + p.stdout[-300:], None
        rcb, outb = run(["go", "build", "./..."], d)
        if rcb != 0:
            return pid, n, "does not compile: " + outb[-300:], None
        ok, bad = suite_ok(d)
        # 3. demo fails with the change
        shutil.copy(demo, os.path.join(tgt, demoname))
        rc1, out1 = run(["go", "test", "-vet=off", "-count=1", "-timeout", "10m", "-run", "Demo|C1[0-9]_|C0[0-9]_|C20_", "./" + pkgdir], d)
        status = []
        if rc0 != 0 or "no tests to run" in out0:
            status.append("demo does not pass on the unchanged tree: " + out0[-300:])
        if not ok:
            status.append("baseline suite changed: " + ",".join(bad))
        if rc1 == 0:
            status.append("demo does not fail with the change")
        info = {"demo_unchanged": "PASS" if rc0 == 0 else "FAIL", "demo_with_change": "FAIL" if rc1 != 0 else "PASS",
                "baseline_700_pass_with_change": ok, "demo_dir": pkgdir, "demo_fail_excerpt": out1[-600:] if rc1 != 0 else ""}
        return pid, n, "; ".join(status) or "confirmed", info
    finally:
        shutil.rmtree(d, ignore_errors=True)

def main():
    todo = []
    for pid in sorted(x for x in os.listdir(STAGE) if os.path.isdir(f"{STAGE}/{x}")):
        for n in (1, 2):
            if os.path.exists(f"/verif/seeded/{pid}-{n+OFFSET}/meta.json") and "--force" not in sys.argv:
                continue
            if len(sys.argv) > 1 and not sys.argv[1].startswith("--") and pid not in sys.argv[1:]:
                continue
            todo.append((pid, n))
    with ThreadPoolExecutor(max_workers=3) as ex:
        for pid, n, status, info in ex.map(lambda a: confirm(*a), todo):
            print(pid, n, status, flush=True)
            if status != "confirmed":
                continue
            out = f"/verif/seeded/{pid}-{n+OFFSET}"
            os.makedirs(out, exist_ok=True)
            st = stagedir(pid)
            shutil.copy(f"{st}/change{n}.diff", f"{out}/patch.diff")
            shutil.copy(f"{st}/demo{n}_test.go", f"{out}/demo_test.go")
            if os.path.exists(f"{st}/change{n}.md"):
                shutil.copy(f"{st}/change{n}.md", f"{out}/notes.md")
            meta = {"id": f"{pid}-{n+OFFSET}", "property": pid, "title": props[pid]["title"], "source": "independent sub-agent given only the property text and a scratch worktree",
                    "needs_to_manifest": "see notes.md (written by the author of the change)",
                    "confirmed_by": "tools/confirm_seeds.py on a scratch copy of /repo HEAD: go build ./... ok; 700 stable baseline tests still pass; demo test passes on the unchanged tree and fails with the change",
                    "confirmation": info, "detected_by": None}
            json.dump(meta, open(f"{out}/meta.json", "w"), indent=1)

main()
