#!/usr/bin/env python3
"""Must-stay-green corpus: applies every /verif/benign/<Cxx>/*.diff (harmless refactorings: renamed locals and parameters,
changed message texts, added log lines, reordered independent statements) to a scratch copy of /repo and runs the quick
check of Cxx there; any VIOLATION is a false alarm of the machinery. Usage: benigntest.py [Cxx ...]"""
import glob, os, shutil, subprocess, sys, tempfile
from concurrent.futures import ThreadPoolExecutor
sel = sys.argv[1:]
cases = [(p.split("/")[-2], p) for p in sorted(glob.glob("/verif/benign/*/*.diff")) if not sel or p.split("/")[-2] in sel]
def run(c):
    pid, patch = c
    d = tempfile.mkdtemp(prefix="benign-", dir="/tmp")
    try:
        subprocess.run(["rsync", "-a", "--exclude", ".git", "/repo/", d + "/repo/"], check=True)
        p = subprocess.run(["patch", "-p1", "-s", "-i", patch], cwd=d + "/repo", capture_output=True, text=True)
        if p.returncode != 0:
            return c, "PATCH-FAILED", ""
        env = dict(os.environ, GOVC_REPO=d + "/repo", GOVC_OUT=d + "/out", GOFLAGS="-mod=mod", GOPROXY="off", GOSUMDB="off", GOTOOLCHAIN="local")
        b = subprocess.run(["go", "build", "./..."], cwd=d + "/repo", env=env, capture_output=True, text=True)
        if b.returncode != 0:
            return c, "DOES-NOT-COMPILE", b.stderr[-300:]
        r = subprocess.run(["/verif/bin/govc", "check", "-p", pid], env=env, capture_output=True, text=True)
        fails = [l for l in r.stdout.splitlines() if l.startswith("  failed:")]
        return c, ("green" if r.returncode == 0 else f"FALSE-ALARM rc={r.returncode}"), "\n".join(fails[:3])
    finally:
        shutil.rmtree(d, ignore_errors=True)
with ThreadPoolExecutor(max_workers=2) as ex:
    res = list(ex.map(run, cases))
bad = 0
for (pid, patch), st, info in res:
    print(f"{patch[len('/verif/'):]:50s} {pid} {st}")
    if st != "green":
        bad += 1
        print("   " + info.replace("\n", "\n   ")[:600])
print(f"{len(res)-bad}/{len(res)} stay green")
