#!/usr/bin/env python3
"""Greedy minimal unsat core of an SMT query file kept with GOVC_KEEPDIR (debug aid). usage: unsatcore.py file.smt2"""
import sys, subprocess
lines = [l for l in open(sys.argv[1]).read().splitlines() if not l.startswith('(check-sat') and not l.startswith('(get-model')]
def unsat(ls):
    open('/tmp/_core.smt2', 'w').write("\n".join(ls) + "\n(check-sat)\n")
    out = subprocess.run(['z3-new', '-T:5', '/tmp/_core.smt2'], capture_output=True, text=True).stdout.split()
    return bool(out) and out[0] == 'unsat'
if not unsat(lines):
    print("not unsat within 5s"); sys.exit(1)
keep = list(lines); i = len(keep) - 1; needed = []
while i >= 0:
    if keep[i].startswith('(assert'):
        trial = keep[:i] + keep[i+1:]
        if unsat(trial): keep = trial
        else: needed.append(keep[i])
    i -= 1
print(len(needed), "needed asserts")
for n in needed: print(n[:900]); print()
