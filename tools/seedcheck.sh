#!/bin/sh
# usage: seedcheck.sh <patch.diff> <Cxx> [more properties...]
# Applies the patch to a scratch copy of /repo (outside /repo and /verif), runs the property checks there, removes the copy.
patch="$1"; shift
d=$(mktemp -d /tmp/seedchk.XXXXXX)
rsync -a --exclude .git /repo/ "$d/repo/"
( cd "$d/repo" && patch -p1 -s < "$patch" ) || { echo "PATCH FAILED"; rm -rf "$d"; exit 3; }
export GOFLAGS=-mod=mod GOPROXY=off GOSUMDB=off GOTOOLCHAIN=local
rc=0
for p in "$@"; do
  GOVC_REPO="$d/repo" GOVC_OUT="$d/out" /verif/bin/govc check -p "$p" | grep -E "^(property|VIOLATION|KNOWN|  failed)" 
done
rm -rf "$d"
