#!/bin/sh
# usage: mkmutant.sh <Cxx> <name> <repo-relative file> <sed expression>   — writes /verif/mutants/<Cxx>/<name>.diff
p="$1"; n="$2"; f="$3"; e="$4"
d=$(mktemp -d /tmp/mkmut.XXXXXX)
mkdir -p "$d/a/$(dirname "$f")" "$d/b/$(dirname "$f")" "/verif/mutants/$p"
cp "/repo/$f" "$d/a/$f"; sed "$e" "/repo/$f" > "$d/b/$f"
( cd "$d" && diff -u "a/$f" "b/$f" > "/verif/mutants/$p/$n.diff" )
if [ ! -s "/verif/mutants/$p/$n.diff" ]; then echo "mutant $n: sed changed nothing"; rm -f "/verif/mutants/$p/$n.diff"; fi
rm -rf "$d"
