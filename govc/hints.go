package main

// Proof hints (as in F*'s --record_hints / --use_hints): for an obligation that was discharged, the solver's unsat
// core names the hypotheses the refutation used. The core is recorded as hashes of the assertion lines. On later runs
// the obligation is first tried with only those hypotheses; dropping hypotheses can only make a query harder to
// refute, never easier, so an `unsat` on the reduced query is a valid discharge of the full obligation. Whenever a
// hinted hypothesis is missing from the current query (the code or a contract changed) or the reduced query is not
// refuted, the full query is run exactly as without hints. Hints therefore never decide a failure and never turn a
// failing obligation into a passing one.

import (
	"crypto/sha256"
	"encoding/hex"
	"encoding/json"
	"fmt"
	"os"
	"os/exec"
	"path/filepath"
	"regexp"
	"sort"
	"strconv"
	"strings"
	"sync"
)

type HintDB struct {
	mu    sync.Mutex
	dir   string
	files map[string]map[string][][]string // file -> obligation name -> alternative hash sets
	dirty map[string]bool
	put   map[string]bool
	// all assertion lines seen per hint file (recorded) / loaded
	allSets   map[string]map[string]bool
	allLoaded map[string]map[string]bool
}

func hintDir() string {
	if d := os.Getenv("GOVC_HINTS"); d != "" {
		return d
	}
	return "/verif/hints"
}

func NewHintDB() *HintDB {
	return &HintDB{dir: hintDir(), files: map[string]map[string][][]string{}, dirty: map[string]bool{}, put: map[string]bool{}}
}

func hintFileOf(oblName string) string {
	fk := oblName
	if i := strings.LastIndex(fk, "/"); i >= 0 {
		fk = fk[:i]
	}
	return mangle(fk) + ".json"
}

func (h *HintDB) load(file string) map[string][][]string {
	if m, ok := h.files[file]; ok {
		return m
	}
	m := map[string][][]string{}
	if b, err := os.ReadFile(filepath.Join(h.dir, file)); err == nil {
		_ = json.Unmarshal(b, &m)
	}
	h.files[file] = m
	return m
}

func (h *HintDB) Get(name string) [][]string {
	h.mu.Lock()
	defer h.mu.Unlock()
	return h.load(hintFileOf(name))[name]
}

// Put records a hash set for an obligation. The first Put of a name in this process replaces what the file had
// (stale hints); later ones add alternatives (several generic instances share an obligation name).
func (h *HintDB) Put(name string, hashes []string) {
	h.mu.Lock()
	defer h.mu.Unlock()
	f := hintFileOf(name)
	m := h.load(f)
	if !h.put[name] {
		m[name] = nil
		h.put[name] = true
	}
	m[name] = append(m[name], hashes)
	h.dirty[f] = true
}

func (h *HintDB) Save() error {
	h.mu.Lock()
	defer h.mu.Unlock()
	if len(h.dirty) == 0 {
		return nil
	}
	if err := os.MkdirAll(h.dir, 0o755); err != nil {
		return err
	}
	for f := range h.dirty {
		if set := h.allSets[f]; set != nil {
			var xs []string
			for x := range set {
				xs = append(xs, x)
			}
			sort.Strings(xs)
			h.files[f][allKey] = [][]string{xs}
		}
		b, _ := json.Marshal(h.files[f])
		// one obligation per line keeps diffs readable
		s := strings.ReplaceAll(string(b), `]],"`, "]],\n\"")
		if err := os.WriteFile(filepath.Join(h.dir, f), []byte(s+"\n"), 0o644); err != nil {
			return err
		}
	}
	return nil
}

var reIdent = regexp.MustCompile(`[A-Za-z_][A-Za-z0-9_.$]*`)

// normLine makes an assertion line independent of the numbering of SSA temporaries, heap versions and fresh names:
// every identifier that contains a digit is replaced by $k, k being the order of its first appearance in the line.
// An inserted statement renumbers everything after it; the normalised text of the unaffected hypotheses stays the
// same, so recorded hints keep applying. Two different lines with the same shape get the same hash, which only makes
// a hint slice a little larger.
func normLine(l string) string {
	idx := map[string]int{}
	return reIdent.ReplaceAllStringFunc(l, func(id string) string {
		hasDigit := false
		for i := 0; i < len(id); i++ {
			if id[i] >= '0' && id[i] <= '9' {
				hasDigit = true
				break
			}
		}
		if !hasDigit {
			return id
		}
		k, ok := idx[id]
		if !ok {
			k = len(idx) + 1
			idx[id] = k
		}
		return "$" + strconv.Itoa(k)
	})
}

func rawHash(l string) string {
	s := sha256.Sum256([]byte(l))
	return hex.EncodeToString(s[:8])
}

func lineHash(l string) string {
	s := sha256.Sum256([]byte(normLine(l)))
	return hex.EncodeToString(s[:6])
}

func isAssertLine(l string) bool {
	if !strings.HasPrefix(l, "(assert ") {
		return false
	}
	d := 0
	for i := 0; i < len(l); i++ {
		switch l[i] {
		case '(':
			d++
		case ')':
			d--
		case '"':
			for i++; i < len(l) && l[i] != '"'; i++ {
			}
		}
	}
	return d == 0
}

// sliceByHint keeps declarations and only the hinted assertions. ok is false when a hinted assertion is absent.
func sliceByHint(query string, hashes []string) (string, bool) {
	found := map[string]bool{}
	for _, x := range hashes {
		found[x] = false
	}
	var b strings.Builder
	for _, l := range strings.Split(query, "\n") {
		if isAssertLine(l) {
			hsh := lineHash(l)
			if _, hinted := found[hsh]; !hinted {
				continue
			}
			found[hsh] = true
		}
		b.WriteString(l)
		b.WriteString("\n")
	}
	for _, v := range found {
		if !v {
			return "", false
		}
	}
	return b.String(), true
}

var coreNameRe = regexp.MustCompile(`\bh(\d+)\b`)

// extractCore asks z3-new for an unsat core of the query; returns the hashes of the core's assertion lines.
func extractCore(tmpdir, name, query string, timeoutS int) ([]string, bool) {
	lines := strings.Split(query, "\n")
	var b strings.Builder
	b.WriteString("(set-option :produce-unsat-cores true)\n")
	for i, l := range lines {
		if isAssertLine(l) {
			fmt.Fprintf(&b, "(assert (! %s :named h%d))\n", l[len("(assert "):len(l)-1], i)
		} else {
			b.WriteString(l + "\n")
		}
	}
	b.WriteString("(check-sat)\n(get-unsat-core)\n")
	file := filepath.Join(tmpdir, mangle(name)+".core.smt2")
	if err := os.WriteFile(file, []byte(b.String()), 0o644); err != nil {
		return nil, false
	}
	defer os.Remove(file)
	out, _ := exec.Command("z3-new", fmt.Sprintf("-T:%d", timeoutS), file).CombinedOutput()
	txt := strings.TrimSpace(string(out))
	if !strings.HasPrefix(txt, "unsat") {
		return nil, false
	}
	rest := txt[len("unsat"):]
	set := map[string]bool{}
	for _, m := range coreNameRe.FindAllStringSubmatch(rest, -1) {
		var i int
		fmt.Sscanf(m[1], "%d", &i)
		if i >= 0 && i < len(lines) && isAssertLine(lines[i]) {
			set[lineHash(lines[i])] = true
		}
	}
	if len(set) == 0 {
		return nil, false
	}
	var hs []string
	for k := range set {
		hs = append(hs, k)
	}
	sort.Strings(hs)
	return hs, true
}

// shrinkCore is the fallback when the solver cannot produce a core in time: delta-debugging style deletion of chunks
// of hypotheses, keeping a deletion whenever the portfolio still refutes the query.
func shrinkCore(tmpdir, name, query string, baseS float64, solvers []string) ([]string, bool) {
	lines := strings.Split(query, "\n")
	var idx []int // removable assertion lines still present (the last two, guard and negated goal, are kept)
	for i, l := range lines {
		if isAssertLine(l) {
			idx = append(idx, i)
		}
	}
	if len(idx) < 8 {
		return nil, false
	}
	idx = idx[:len(idx)-2]
	removed := map[int]bool{}
	build := func(extra map[int]bool) string {
		var b strings.Builder
		for i, l := range lines {
			if removed[i] || extra[i] {
				continue
			}
			b.WriteString(l + "\n")
		}
		return b.String()
	}
	best := baseS
	for _, n := range []int{4, 8, 16, 32} {
		var live []int
		for _, i := range idx {
			if !removed[i] {
				live = append(live, i)
			}
		}
		if len(live) < n {
			break
		}
		sz := (len(live) + n - 1) / n
		for c := 0; c < n; c++ {
			lo, hi := c*sz, (c+1)*sz
			if lo >= len(live) {
				break
			}
			if hi > len(live) {
				hi = len(live)
			}
			extra := map[int]bool{}
			for _, i := range live[lo:hi] {
				extra[i] = true
			}
			to := int(2*best) + 3
			r := RunQuery(tmpdir, name+".shrink", build(extra), to, solvers)
			if r.Status == "unsat" {
				for i := range extra {
					removed[i] = true
				}
				if r.Seconds < best {
					best = r.Seconds
				}
			}
		}
	}
	if len(removed) == 0 {
		return nil, false
	}
	set := map[string]bool{}
	for i, l := range lines {
		if isAssertLine(l) && !removed[i] {
			set[lineHash(l)] = true
		}
	}
	var hs []string
	for k := range set {
		hs = append(hs, k)
	}
	sort.Strings(hs)
	return hs, true
}

// ---- tolerant use of hints after an edit -------------------------------------------------------------------------
// With the hints, the set of ALL assertion lines ever seen in the queries of a function is recorded (key "__all__").
// When a hint no longer applies exactly because the code or a contract changed, the obligation is first tried on the
// hinted hypotheses that are still present plus every hypothesis that is new (not in the recorded set): an edit
// usually changes a few lines, and those are exactly the new ones. As before this is a subset of the full query's
// hypotheses, so `unsat` is a valid discharge, and anything else falls back to the full query.

const allKey = "__all__"

func (h *HintDB) AddAll(oblName string, query string) {
	h.mu.Lock()
	defer h.mu.Unlock()
	f := hintFileOf(oblName)
	m := h.load(f)
	if h.allSets == nil {
		h.allSets = map[string]map[string]bool{}
	}
	set := h.allSets[f]
	if set == nil {
		set = map[string]bool{}
		if ls := m[allKey]; len(ls) == 1 {
			for _, x := range ls[0] {
				set[x] = true
			}
		}
		h.allSets[f] = set
	}
	for _, l := range strings.Split(query, "\n") {
		if isAssertLine(l) {
			set[lineHash(l)] = true
		}
	}
	_ = m
	h.dirty[f] = true
}

func (h *HintDB) allOf(oblName string) map[string]bool {
	h.mu.Lock()
	defer h.mu.Unlock()
	f := hintFileOf(oblName)
	if h.allLoaded == nil {
		h.allLoaded = map[string]map[string]bool{}
	}
	if s, ok := h.allLoaded[f]; ok {
		return s
	}
	m := h.load(f)
	var set map[string]bool
	if ls := m[allKey]; len(ls) == 1 {
		set = map[string]bool{}
		for _, x := range ls[0] {
			set[x] = true
		}
	}
	h.allLoaded[f] = set
	return set
}

// sliceTolerant keeps the hinted hypotheses that are present and every hypothesis not in the recorded set.
func sliceTolerant(query string, hashes []string, all map[string]bool) (string, bool) {
	if all == nil {
		return "", false
	}
	want := map[string]bool{}
	for _, x := range hashes {
		want[x] = true
	}
	var b strings.Builder
	kept, fresh := 0, 0
	for _, l := range strings.Split(query, "\n") {
		if isAssertLine(l) {
			hsh := lineHash(l)
			switch {
			case want[hsh]:
				kept++
			case !all[hsh]:
				fresh++
			default:
				continue
			}
		}
		b.WriteString(l)
		b.WriteString("\n")
	}
	if kept == 0 || fresh > 400 {
		return "", false
	}
	return b.String(), true
}
