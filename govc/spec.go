package main

import (
	"bufio"
	"fmt"
	"go/ast"
	"go/parser"
	"go/types"
	"os"
	"path/filepath"
	"regexp"
	"sort"
	"strconv"
	"strings"
)

// Clause is one specification clause.
type Clause struct {
	Kind   string // requires ensures invariant decreases assert lemma globalinv modifies
	Label  string
	Raw    string
	Expr   ast.Expr
	Exprs  []ast.Expr // modifies list
	Where  string     // file:line
	Ctx    *PkgCtx
	Assume bool // "assume" clause at call site instead of assert
}

type LoopSpec struct {
	ExitAsserts []*Clause
	Invariants  []*Clause
	Modifies    []*Clause
	Decreases   *Clause
}

type CallAssert struct {
	Callee string // callee key (suffix match)
	Site   int    // 0 = all sites, k = k-th matching site
	Clause *Clause
}

type Contract struct {
	Key         string
	Extern      bool
	Trusted     bool // in-repo but assumed
	Pure        bool // no heap effect at all
	Props       []string
	ParamNames  []string
	ResultNames []string
	Requires    []*Clause
	Ensures     []*Clause
	// LocalEnsures: `A ==> B` where A speaks about parameters/results and B may mention locals; at a return
	// site where B's locals are not in scope the obligation is "A is false here".
	LocalEnsures  []*Clause
	GhostEnsures  []*Clause
	Modifies      []*Clause
	HasModifies   bool
	Loops         map[int]*LoopSpec
	CallAsserts   []*CallAssert
	Callback      map[int]*LoopSpec // callback invariants keyed by closure ordinal
	Ctx           *PkgCtx
	Where         string
	NoOverflow    bool
	OSCalls       []string
	OSCallsLabel  string
	HasOSCalls    bool
	CallbackParam string
	DeadReturns   []string
	Interf        bool // interference fs
}

type PureFunc struct {
	Name    string
	Params  []string
	PTypes  []types.Type
	RType   types.Type
	Body    ast.Expr // nil for ghost (uninterpreted)
	Ctx     *PkgCtx
	Where   string
	RawSig  string
	PSorts  []Sort // optional explicit sorts for ghost funcs with abstract types
	RSort   Sort
	Heapdep bool // ghost function depends on heap state (reads): gets state args
	Opaque  bool
	State   bool // mutable ghost state (a state component indexed by the single parameter)
}

// TypeMethods: `type-methods[label] pkg/path.Type: M1 M2` — the method set of *Type is exactly these methods. Library code
// (io.Copy, encoding/json) looks for optional methods (ReadFrom, WriteTo, UnmarshalJSON, MarshalJSON) by dynamic
// dispatch: a new method on a type changes behaviour that no call graph of the repository shows.
type TypeMethods struct {
	Label   string
	Type    string
	Methods []string
	Where   string
}

type Lemma struct {
	Label  string
	Clause *Clause
	Props  []string
}

// PkgCtx resolves identifiers of spec expressions.
type PkgCtx struct {
	Pkg     *types.Package
	Imports map[string]*types.Package
	P       *Program
}

type Specs struct {
	Contracts   map[string]*Contract
	Pure        map[string]*PureFunc
	Lemmas      []*Lemma
	GlobalInv   []*Clause
	Axioms      []*Clause
	Universal   []string // properties to which every function under contract contributes its unlabelled obligations
	TypeMethods []*TypeMethods
	Files       []string
	P           *Program
}

func (c *Contract) loop(k int) *LoopSpec {
	if c.Loops == nil {
		c.Loops = map[int]*LoopSpec{}
	}
	if c.Loops[k] == nil {
		c.Loops[k] = &LoopSpec{}
	}
	return c.Loops[k]
}

// ---------------------------------------------------------------------------------------------
// ==> / <==> rewriting

func rewriteImplies(s string) string { return rwList(s) }

func scanDepth0(s string, f func(i int, depth int) bool) {
	depth := 0
	for i := 0; i < len(s); i++ {
		c := s[i]
		switch c {
		case '"':
			i++
			for i < len(s) && s[i] != '"' {
				if s[i] == '\\' {
					i++
				}
				i++
			}
			continue
		case '`':
			i++
			for i < len(s) && s[i] != '`' {
				i++
			}
			continue
		case '\'':
			i++
			for i < len(s) && s[i] != '\'' {
				if s[i] == '\\' {
					i++
				}
				i++
			}
			continue
		case '(', '[', '{':
			if !f(i, depth) {
				return
			}
			depth++
			continue
		case ')', ']', '}':
			depth--
			if !f(i, depth) {
				return
			}
			continue
		}
		if !f(i, depth) {
			return
		}
	}
}

func rwList(s string) string {
	var parts []string
	last := 0
	scanDepth0(s, func(i, d int) bool {
		if d == 0 && s[i] == ',' {
			parts = append(parts, s[last:i])
			last = i + 1
		}
		return true
	})
	parts = append(parts, s[last:])
	for i := range parts {
		parts[i] = rwExpr(parts[i])
	}
	return strings.Join(parts, ",")
}

func rwExpr(s string) string {
	// <==> first (lowest precedence)
	idx := -1
	scanDepth0(s, func(i, d int) bool {
		if d == 0 && strings.HasPrefix(s[i:], "<==>") {
			idx = i
			return false
		}
		return true
	})
	if idx >= 0 {
		return "iff(" + rwExpr(s[:idx]) + ", " + rwExpr(s[idx+4:]) + ")"
	}
	scanDepth0(s, func(i, d int) bool {
		if d == 0 && strings.HasPrefix(s[i:], "==>") && (i == 0 || s[i-1] != '<') {
			idx = i
			return false
		}
		return true
	})
	if idx >= 0 {
		return "implies(" + rwExpr(s[:idx]) + ", " + rwExpr(s[idx+3:]) + ")"
	}
	// descend into bracket groups
	var b strings.Builder
	start := -1
	last := 0
	scanDepth0(s, func(i, d int) bool {
		c := s[i]
		if d == 0 && (c == '(' || c == '[' || c == '{') && start < 0 {
			start = i
		} else if d == 0 && (c == ')' || c == ']' || c == '}') && start >= 0 {
			b.WriteString(s[last : start+1])
			b.WriteString(rwList(s[start+1 : i]))
			last = i
			start = -1
		}
		return true
	})
	b.WriteString(s[last:])
	return b.String()
}

func parseSpecExpr(raw string) (ast.Expr, error) {
	src := rewriteImplies(raw)
	e, err := parser.ParseExpr(src)
	if err != nil {
		return nil, fmt.Errorf("%v in %q", err, src)
	}
	return e, nil
}

// ---------------------------------------------------------------------------------------------
// Loading

var reLabel = regexp.MustCompile(`^([\w-]+)\[([^\]]+)\]\s*(.*)$`)
var reExternHdr = regexp.MustCompile(`^(.*\.(?:[A-Za-z_]\w*|\*)(?:<[^>]*>)?)\(([^()]*)\)\s*(?:\(([^()]*)\))?\s*$`)
var rePureHdr = regexp.MustCompile(`^(\w+)\((.*?)\)\s*([^=]*?)\s*(?:=\s*(.*))?$`)

type rawLine struct {
	text  string
	where string
}

// readSpecLines extracts logical directive lines (continuations joined).
func readSpecLines(path string, goFile bool) ([]rawLine, error) {
	f, err := os.Open(path)
	if err != nil {
		return nil, err
	}
	defer f.Close()
	var out []rawLine
	sc := bufio.NewScanner(f)
	sc.Buffer(make([]byte, 1<<20), 1<<20)
	n := 0
	for sc.Scan() {
		n++
		line := sc.Text()
		var body string
		if goFile {
			t := strings.TrimSpace(line)
			if !strings.HasPrefix(t, "//@") {
				continue
			}
			body = strings.TrimPrefix(t, "//@")
			if strings.HasPrefix(body, " ") {
				body = body[1:]
			}
		} else {
			if i := strings.Index(line, " #"); i >= 0 {
				line = line[:i]
			}
			if strings.HasPrefix(strings.TrimSpace(line), "#") {
				continue
			}
			body = line
		}
		if strings.TrimSpace(body) == "" {
			continue
		}
		if (body[0] == ' ' || body[0] == '\t') && len(out) > 0 && !(startsWithDirective(body) && !strings.HasPrefix(body, "     ")) {
			out[len(out)-1].text += " " + strings.TrimSpace(body)
			continue
		}
		out = append(out, rawLine{strings.TrimSpace(body), fmt.Sprintf("%s:%d", path, n)})
	}
	return out, sc.Err()
}

func (P *Program) pkgCtxFor(pkgPath string) *PkgCtx {
	ctx := &PkgCtx{Imports: map[string]*types.Package{}, P: P}
	if p := P.byPath[pkgPath]; p != nil {
		ctx.Pkg = p.Types
		for _, f := range p.Syntax {
			for _, imp := range f.Imports {
				ipath, _ := strconv.Unquote(imp.Path.Value)
				ip := P.byPath[ipath]
				if ip == nil {
					continue
				}
				name := ip.Types.Name()
				if imp.Name != nil {
					name = imp.Name.Name
				}
				if name == "_" || name == "." {
					continue
				}
				ctx.Imports[name] = ip.Types
			}
		}
	}
	return ctx
}

func LoadSpecs(P *Program, externDir string) (*Specs, error) {
	S := &Specs{Contracts: map[string]*Contract{}, Pure: map[string]*PureFunc{}, P: P}
	// repo contract files
	var errs []string
	for path, p := range P.byPath {
		if !strings.HasPrefix(path, repoModule) {
			continue
		}
		for _, gf := range p.GoFiles {
			if filepath.Base(gf) != "zz_contracts_verif.go" {
				continue
			}
			lines, err := readSpecLines(gf, true)
			if err != nil {
				return nil, err
			}
			S.Files = append(S.Files, gf)
			ctx := P.pkgCtxFor(path)
			if err := S.parseLines(lines, ctx, shortPkg(path), false); err != nil {
				errs = append(errs, err.Error())
			}
		}
	}
	// extern specs
	files, _ := filepath.Glob(filepath.Join(externDir, "*.spec"))
	sort.Strings(files)
	for _, f := range files {
		lines, err := readSpecLines(f, false)
		if err != nil {
			return nil, err
		}
		S.Files = append(S.Files, f)
		ctx := &PkgCtx{Imports: map[string]*types.Package{}, P: P}
		if err := S.parseLines(lines, ctx, "", true); err != nil {
			errs = append(errs, err.Error())
		}
	}
	if len(errs) > 0 {
		return nil, fmt.Errorf("spec errors:\n%s", strings.Join(errs, "\n"))
	}
	return S, nil
}

func splitNames(s string) []string {
	var out []string
	for _, p := range strings.Split(s, ",") {
		p = strings.TrimSpace(p)
		if p == "" {
			continue
		}
		// allow "name type" form: keep first word
		if i := strings.IndexAny(p, " \t"); i >= 0 {
			p = p[:i]
		}
		out = append(out, p)
	}
	return out
}

func (S *Specs) parseLines(lines []rawLine, ctx *PkgCtx, pkgShort string, extern bool) error {
	var cur *Contract
	var errs []string
	fail := func(l rawLine, f string, a ...any) {
		errs = append(errs, l.where+": "+fmt.Sprintf(f, a...))
	}
	mkClause := func(l rawLine, kind, label, raw string) *Clause {
		e, err := parseSpecExpr(raw)
		if err != nil {
			fail(l, "%v", err)
			return nil
		}
		return &Clause{Kind: kind, Label: label, Raw: raw, Expr: e, Where: l.where, Ctx: ctx}
	}
	for _, l := range lines {
		text := l.text
		word, rest := text, ""
		if i := strings.IndexAny(text, " \t"); i >= 0 {
			word, rest = text[:i], strings.TrimSpace(text[i+1:])
		}
		label := ""
		if m := reLabel.FindStringSubmatch(text); m != nil && !strings.ContainsAny(m[1], " ") && strings.HasPrefix(text, m[1]+"[") {
			word, label, rest = m[1], m[2], m[3]
		}
		switch word {
		case "import":
			f := strings.Fields(rest)
			if len(f) != 2 {
				fail(l, "import alias \"path\"")
				continue
			}
			ipath, _ := strconv.Unquote(f[1])
			if ip := S.P.byPath[ipath]; ip != nil {
				ctx.Imports[f[0]] = ip.Types
				if extern && ctx.Pkg == nil {
					// nothing
				}
			} else {
				fail(l, "import: package %s not loaded", ipath)
			}
		case "package":
			ipath := strings.Trim(rest, "\"")
			if ip := S.P.byPath[ipath]; ip != nil {
				nc := S.P.pkgCtxFor(ipath)
				for k, v := range ctx.Imports {
					if _, ok := nc.Imports[k]; !ok {
						nc.Imports[k] = v
					}
				}
				ctx = nc
			} else {
				fail(l, "package: %s not loaded", ipath)
			}
		case "func":
			key := pkgShort + "." + strings.TrimSpace(rest)
			cur = &Contract{Key: key, Ctx: ctx, Where: l.where}
			if S.Contracts[key] != nil {
				fail(l, "duplicate contract for %s", key)
			}
			S.Contracts[key] = cur
		case "verify":
			// verify func <full key>: a contract on a dependency's function that is VERIFIED from its source
			// in the module cache (not assumed)
			key := strings.TrimSpace(strings.TrimPrefix(rest, "func"))
			m := reExternHdr.FindStringSubmatch(key)
			cur = &Contract{Ctx: ctx, Where: l.where}
			if m != nil {
				cur.Key = strings.TrimSpace(m[1])
				cur.ParamNames = splitNames(m[2])
				cur.ResultNames = splitNames(m[3])
			} else {
				cur.Key = key
			}
			if S.Contracts[cur.Key] != nil {
				fail(l, "duplicate contract for %s", cur.Key)
			}
			S.Contracts[cur.Key] = cur
		case "extern":
			rest = strings.TrimSpace(strings.TrimPrefix(strings.TrimPrefix(rest, "func"), "method"))
			m := reExternHdr.FindStringSubmatch(rest)
			if m == nil {
				fail(l, "bad extern header %q", rest)
				cur = nil
				continue
			}
			cur = &Contract{Key: strings.TrimSpace(m[1]), Extern: true, Ctx: ctx, Where: l.where,
				ParamNames: splitNames(m[2]), ResultNames: splitNames(m[3])}
			if S.Contracts[cur.Key] != nil {
				fail(l, "duplicate contract for %s", cur.Key)
			}
			S.Contracts[cur.Key] = cur
		case "props":
			if cur != nil {
				cur.Props = append(cur.Props, strings.Fields(rest)...)
			}
		case "trusted":
			if cur != nil {
				cur.Trusted = true
			}
		case "pure":
			if strings.HasPrefix(rest, "func ") {
				S.parsePure(l, strings.TrimPrefix(rest, "func "), ctx, false, fail)
			} else if cur != nil {
				cur.Pure = true
			}
		case "ghost":
			if strings.HasPrefix(rest, "state ") {
				// ghost state name(key T) V: mutable ghost state of the environment (e.g. what a file holds),
				// read as name(k), changed only through `modifies name(k)` clauses of assumed contracts
				hdr := strings.TrimPrefix(rest, "state ")
				S.parsePure(l, hdr, ctx, true, fail)
				if m := rePureHdr.FindStringSubmatch(hdr); m != nil && S.Pure[m[1]] != nil {
					S.Pure[m[1]].State = true
					if len(S.Pure[m[1]].Params) != 1 {
						fail(l, "ghost state needs exactly one key parameter")
					}
				}
				continue
			}
			S.parsePure(l, strings.TrimPrefix(rest, "func "), ctx, true, fail)
		case "opaque":
			// opaque func: a heap-independent pure function kept behind an uninterpreted symbol with a
			// pattern-guarded defining axiom, so quantified invariants see an atom, not its (regex) body
			S.parsePure(l, strings.TrimPrefix(rest, "func "), ctx, false, fail)
			if m := rePureHdr.FindStringSubmatch(strings.TrimPrefix(rest, "func ")); m != nil && S.Pure[m[1]] != nil {
				S.Pure[m[1]].Opaque = true
			}
		case "os-calls-only":
			// whitelist of functions of package os (and syscall, io/ioutil) the function may call
			if cur != nil {
				lab := label
				cur.OSCallsLabel = lab
				cur.OSCalls = append(cur.OSCalls, strings.Fields(rest)...)
				cur.HasOSCalls = true
			}
		case "calls-back":
			// extern iterator: the named parameter is a function the callee calls zero or more times
			if cur != nil {
				cur.CallbackParam = strings.TrimSpace(rest)
			}
		case "dead-return":
			// dead-return from <callee>: a return that passes on an error produced by <callee> may be unreachable
			if cur != nil {
				cur.DeadReturns = append(cur.DeadReturns, strings.TrimSpace(strings.TrimPrefix(rest, "from")))
			}
		case "nooverflow":
			if cur != nil {
				cur.NoOverflow = true
			}
		case "interference":
			if cur != nil {
				cur.Interf = true
			}
		case "requires", "ensures", "ensures-local", "ensures-ghost":
			if cur == nil {
				fail(l, "%s outside func", word)
				continue
			}
			c := mkClause(l, word, label, rest)
			if c == nil {
				continue
			}
			if word == "requires" {
				cur.Requires = append(cur.Requires, c)
			} else if word == "ensures-ghost" {
				// history/provenance tag over an uninterpreted ghost predicate: assumed at call sites, not checked in the body
				c.Kind = "ensures-ghost"
				cur.GhostEnsures = append(cur.GhostEnsures, c)
			} else if word == "ensures-local" {
				c.Kind = "ensures-local"
				cur.LocalEnsures = append(cur.LocalEnsures, c)
			} else {
				cur.Ensures = append(cur.Ensures, c)
			}
		case "modifies":
			if cur == nil {
				fail(l, "modifies outside func")
				continue
			}
			cur.HasModifies = true
			if c := S.parseModifies(l, rest, ctx, fail); c != nil {
				cur.Modifies = append(cur.Modifies, c)
			}
		case "loop", "callback":
			if cur == nil {
				fail(l, "loop outside func")
				continue
			}
			f := strings.SplitN(rest, " ", 3)
			if len(f) < 3 {
				fail(l, "loop <k> invariant|modifies|decreases <e>")
				continue
			}
			k, err := strconv.Atoi(f[0])
			if err != nil {
				fail(l, "loop ordinal: %v", err)
				continue
			}
			var ls *LoopSpec
			if word == "loop" {
				ls = cur.loop(k)
			} else {
				if cur.Callback == nil {
					cur.Callback = map[int]*LoopSpec{}
				}
				if cur.Callback[k] == nil {
					cur.Callback[k] = &LoopSpec{}
				}
				ls = cur.Callback[k]
			}
			kind := f[1]
			lab := ""
			if i := strings.Index(kind, "["); i >= 0 && strings.HasSuffix(kind, "]") {
				lab = kind[i+1 : len(kind)-1]
				kind = kind[:i]
			}
			switch kind {
			case "invariant":
				if c := mkClause(l, "invariant", lab, f[2]); c != nil {
					ls.Invariants = append(ls.Invariants, c)
				}
			case "exit-assert":
				if c := mkClause(l, "exit-assert", lab, f[2]); c != nil {
					ls.ExitAsserts = append(ls.ExitAsserts, c)
				}
			case "decreases":
				ls.Decreases = mkClause(l, "decreases", lab, f[2])
			case "modifies":
				if c := S.parseModifies(l, f[2], ctx, fail); c != nil {
					ls.Modifies = append(ls.Modifies, c)
				}
			default:
				fail(l, "unknown loop clause %q", kind)
			}
		case "at":
			// at call <callee>[#k]: assert[label] <e>
			if cur == nil {
				fail(l, "at call outside func")
				continue
			}
			r := strings.TrimSpace(strings.TrimPrefix(rest, "call"))
			i := strings.Index(r, ": ")
			if i < 0 {
				fail(l, "at call <callee>: assert <e>")
				continue
			}
			callee, body := strings.TrimSpace(r[:i]), strings.TrimSpace(r[i+2:])
			site := 0
			if j := strings.LastIndex(callee, "#"); j >= 0 {
				site, _ = strconv.Atoi(callee[j+1:])
				callee = callee[:j]
			}
			lab := ""
			w := body
			if m := reLabel.FindStringSubmatch(body); m != nil && (m[1] == "assert" || m[1] == "assume") {
				w, lab, body = m[1], m[2], m[3]
			} else if strings.HasPrefix(body, "assert ") {
				w, body = "assert", strings.TrimPrefix(body, "assert ")
			} else if strings.HasPrefix(body, "assume ") {
				w, body = "assume", strings.TrimPrefix(body, "assume ")
			}
			c := mkClause(l, "assert", lab, body)
			if c == nil {
				continue
			}
			c.Assume = w == "assume"
			cur.CallAsserts = append(cur.CallAsserts, &CallAssert{Callee: callee, Site: site, Clause: c})
		case "lemma":
			c := mkClause(l, "lemma", label, rest)
			if c != nil {
				lm := &Lemma{Label: label, Clause: c}
				if i := strings.Index(label, "."); i > 0 {
					lm.Props = []string{label[:i]}
				}
				S.Lemmas = append(S.Lemmas, lm)
			}
		case "axiom":
			// an assumed closed formula over ghost functions (listed in the trusted base of every check using it)
			if c := mkClause(l, "axiom", label, rest); c != nil {
				S.Axioms = append(S.Axioms, c)
			}
		case "type-methods":
			i := strings.Index(rest, ":")
			if i < 0 {
				fail(l, "type-methods: expected `<type>: <methods>`")
				continue
			}
			S.TypeMethods = append(S.TypeMethods, &TypeMethods{Label: label, Type: strings.TrimSpace(rest[:i]), Methods: strings.Fields(rest[i+1:]), Where: l.where})
		case "safety-property":
			// `safety-property Cxx`: the unlabelled obligations (no panic, no overflow, callee preconditions, loop
			// invariants, frames) of every function under contract count for property Cxx
			S.Universal = append(S.Universal, strings.Fields(rest)...)
		case "global":
			r := strings.TrimSpace(strings.TrimPrefix(rest, "invariant"))
			if c := mkClause(l, "globalinv", label, r); c != nil {
				S.GlobalInv = append(S.GlobalInv, c)
			}
		default:
			fail(l, "unknown directive %q", word)
		}
	}
	if len(errs) > 0 {
		return fmt.Errorf("%s", strings.Join(errs, "\n"))
	}
	return nil
}

func (S *Specs) parseModifies(l rawLine, rest string, ctx *PkgCtx, fail func(rawLine, string, ...any)) *Clause {
	rest = strings.TrimSpace(rest)
	if i := strings.Index(rest, "//"); i >= 0 {
		rest = strings.TrimSpace(rest[:i])
	}
	c := &Clause{Kind: "modifies", Raw: rest, Where: l.where, Ctx: ctx}
	if rest == "nothing" || rest == "" {
		return c
	}
	// parse as argument list
	e, err := parser.ParseExpr("f(" + rest + ")")
	if err != nil {
		fail(l, "modifies: %v", err)
		return nil
	}
	c.Exprs = e.(*ast.CallExpr).Args
	return c
}

func (S *Specs) parsePure(l rawLine, rest string, ctx *PkgCtx, ghost bool, fail func(rawLine, string, ...any)) {
	m := rePureHdr.FindStringSubmatch(rest)
	if m == nil {
		fail(l, "bad pure/ghost func header")
		return
	}
	name, params, rtype, body := m[1], m[2], strings.TrimSpace(m[3]), strings.TrimSpace(m[4])
	pf := &PureFunc{Name: name, Ctx: ctx, Where: l.where, RawSig: rest}
	if strings.HasPrefix(rtype, "reads ") { // "ghost func f(x T) reads bool": heap dependent
		pf.Heapdep = true
		rtype = strings.TrimPrefix(rtype, "reads ")
	}
	ft, err := parser.ParseExpr("func(" + params + ") " + rtype)
	if err != nil {
		fail(l, "signature: %v", err)
		return
	}
	fty := ft.(*ast.FuncType)
	for _, fld := range fty.Params.List {
		ty, err := resolveTypeExpr(ctx, fld.Type)
		if err != nil {
			fail(l, "param type: %v", err)
			return
		}
		if len(fld.Names) == 0 {
			pf.Params = append(pf.Params, fmt.Sprintf("arg%d", len(pf.Params)))
			pf.PTypes = append(pf.PTypes, ty)
		}
		for _, n := range fld.Names {
			pf.Params = append(pf.Params, n.Name)
			pf.PTypes = append(pf.PTypes, ty)
		}
	}
	if fty.Results == nil || len(fty.Results.List) != 1 {
		fail(l, "pure/ghost func needs exactly one result type")
		return
	}
	rt, err := resolveTypeExpr(ctx, fty.Results.List[0].Type)
	if err != nil {
		fail(l, "result type: %v", err)
		return
	}
	pf.RType = rt
	if !ghost {
		if body == "" {
			fail(l, "pure func needs a body")
			return
		}
		e, err := parseSpecExpr(body)
		if err != nil {
			fail(l, "%v", err)
			return
		}
		pf.Body = e
	}
	if S.Pure[name] != nil {
		fail(l, "duplicate pure/ghost func %s", name)
	}
	S.Pure[name] = pf
}

// resolveTypeExpr turns a type expression into a types.Type in the package context.
func resolveTypeExpr(ctx *PkgCtx, e ast.Expr) (types.Type, error) {
	switch x := e.(type) {
	case *ast.Ident:
		if o := types.Universe.Lookup(x.Name); o != nil {
			if tn, ok := o.(*types.TypeName); ok {
				return tn.Type(), nil
			}
		}
		if ctx.Pkg != nil {
			if o := ctx.Pkg.Scope().Lookup(x.Name); o != nil {
				if tn, ok := o.(*types.TypeName); ok {
					return tn.Type(), nil
				}
			}
		}
		return nil, fmt.Errorf("unknown type %s", x.Name)
	case *ast.SelectorExpr:
		id, ok := x.X.(*ast.Ident)
		if !ok {
			return nil, fmt.Errorf("bad qualified type")
		}
		ip := ctx.Imports[id.Name]
		if ip == nil {
			return nil, fmt.Errorf("unknown package qualifier %s", id.Name)
		}
		o := ip.Scope().Lookup(x.Sel.Name)
		if tn, ok := o.(*types.TypeName); ok {
			return tn.Type(), nil
		}
		return nil, fmt.Errorf("unknown type %s.%s", id.Name, x.Sel.Name)
	case *ast.StarExpr:
		t, err := resolveTypeExpr(ctx, x.X)
		if err != nil {
			return nil, err
		}
		return types.NewPointer(t), nil
	case *ast.ArrayType:
		t, err := resolveTypeExpr(ctx, x.Elt)
		if err != nil {
			return nil, err
		}
		if x.Len == nil {
			return types.NewSlice(t), nil
		}
		if bl, ok := x.Len.(*ast.BasicLit); ok {
			n, _ := strconv.ParseInt(bl.Value, 10, 64)
			return types.NewArray(t, n), nil
		}
		return nil, fmt.Errorf("array length")
	case *ast.MapType:
		k, err := resolveTypeExpr(ctx, x.Key)
		if err != nil {
			return nil, err
		}
		v, err := resolveTypeExpr(ctx, x.Value)
		if err != nil {
			return nil, err
		}
		return types.NewMap(k, v), nil
	case *ast.InterfaceType:
		return types.NewInterfaceType(nil, nil), nil
	case *ast.ParenExpr:
		return resolveTypeExpr(ctx, x.X)
	}
	return nil, fmt.Errorf("unsupported type expression %T", e)
}

var directiveWords = map[string]bool{"import": true, "package": true, "func": true, "extern": true, "verify": true, "props": true, "trusted": true,
	"pure": true, "ghost": true, "opaque": true, "nooverflow": true, "dead-return": true, "calls-back": true, "os-calls-only": true, "interference": true, "requires": true, "ensures": true, "ensures-local": true, "ensures-ghost": true, "modifies": true,
	"loop": true, "callback": true, "at": true, "lemma": true, "global": true, "axiom": true, "safety-property": true, "type-methods": true}

func startsWithDirective(body string) bool {
	t := strings.TrimSpace(body)
	i := strings.IndexAny(t, " \t[")
	if i < 0 {
		i = len(t)
	}
	return directiveWords[t[:i]]
}
