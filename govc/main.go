package main

import (
	"fmt"
	"os"
	"sort"
	"strings"
)

func main() {
	if len(os.Args) < 2 {
		fmt.Fprintln(os.Stderr, "usage: govc <dump|check|...>")
		os.Exit(2)
	}
	switch os.Args[1] {
	case "dump":
		P, err := LoadProgram()
		if err != nil {
			fmt.Fprintln(os.Stderr, err)
			os.Exit(2)
		}
		if len(os.Args) == 2 {
			var keys []string
			for _, fn := range P.RepoFuncs() {
				keys = append(keys, FuncKey(fn))
			}
			sort.Strings(keys)
			fmt.Println(strings.Join(keys, "\n"))
			return
		}
		for _, k := range os.Args[2:] {
			fn := P.Func(k)
			if fn == nil {
				fmt.Println("no such function", k)
				continue
			}
			fn.WriteTo(os.Stdout)
		}
	case "keys":
		P, err := LoadProgram()
		if err != nil {
			fmt.Fprintln(os.Stderr, err)
			os.Exit(2)
		}
		var keys []string
		for k := range P.funcs {
			if len(os.Args) < 3 || strings.Contains(k, os.Args[2]) {
				keys = append(keys, k)
			}
		}
		sort.Strings(keys)
		fmt.Println(strings.Join(keys, "\n"))
	case "check":
		os.Exit(cmdCheck(os.Args[2:]))
	case "vc":
		os.Exit(cmdVC(os.Args[2:]))
	case "sweep":
		os.Exit(cmdSweep(os.Args[2:]))
	case "replay":
		os.Exit(cmdReplay(os.Args[2:]))
	case "uncovered":
		// repository functions (with a body, outside internal/mock) that have no contract
		P, err := LoadProgram()
		if err != nil {
			fmt.Fprintln(os.Stderr, err)
			os.Exit(2)
		}
		S, err := LoadSpecs(P, verifDir+"/contracts")
		if err != nil {
			fmt.Fprintln(os.Stderr, err)
			os.Exit(2)
		}
		n, u := 0, 0
		for _, fn := range P.RepoFuncs() {
			k := FuncKey(fn)
			if len(fn.Blocks) == 0 || strings.Contains(k, "internal/mock") || strings.HasSuffix(k, ".init") {
				continue
			}
			n++
			if S.Contracts[k] == nil {
				u++
				ni := 0
				for _, b := range fn.Blocks {
					ni += len(b.Instrs)
				}
				fmt.Printf("%5d %s\n", ni, k)
			}
		}
		fmt.Printf("%d of %d repository functions have no contract\n", u, n)
	default:
		fmt.Fprintln(os.Stderr, "unknown command")
		os.Exit(2)
	}
}
