package main

import (
	"bytes"
	"context"
	"fmt"
	"os"
	"os/exec"
	"path/filepath"
	"strings"
	"time"
)

// Sort is the SMT-LIB text of a sort.
type Sort string

const (
	SInt    Sort = "Int"
	SBool   Sort = "Bool"
	SString Sort = "String"
	SRef    Sort = "Ref"
	SSlice  Sort = "Slice"
	SIface  Sort = "Iface"
	SFn     Sort = "Fn"
	SReal   Sort = "Real"
)

// Term is an SMT-LIB term with its sort.
type Term struct {
	S    string
	Sort Sort
}

func T(sort Sort, s string) Term { return Term{S: s, Sort: sort} }

func App(sort Sort, op string, args ...Term) Term {
	var b strings.Builder
	b.WriteString("(")
	b.WriteString(op)
	for _, a := range args {
		b.WriteString(" ")
		b.WriteString(a.S)
	}
	b.WriteString(")")
	return Term{S: b.String(), Sort: sort}
}

var (
	True  = Term{"true", SBool}
	False = Term{"false", SBool}
	Null  = Term{"null", SRef}
)

func IntLit(n int64) Term {
	if n < 0 {
		return Term{fmt.Sprintf("(- %d)", -n), SInt}
	}
	return Term{fmt.Sprintf("%d", n), SInt}
}

func BigLit(s string) Term {
	if strings.HasPrefix(s, "-") {
		return Term{"(- " + s[1:] + ")", SInt}
	}
	return Term{s, SInt}
}

func StrLit(s string) Term {
	var b strings.Builder
	b.WriteByte('"')
	for i := 0; i < len(s); i++ {
		c := s[i]
		switch {
		case c == '"':
			b.WriteString(`""`)
		case c == '\\':
			b.WriteString(`\u{5c}`)
		case c >= 0x20 && c < 0x7f:
			b.WriteByte(c)
		default:
			fmt.Fprintf(&b, `\u{%x}`, c)
		}
	}
	b.WriteByte('"')
	return Term{b.String(), SString}
}

func And(ts ...Term) Term {
	var xs []Term
	for _, t := range ts {
		if t.S == "true" {
			continue
		}
		if t.S == "false" {
			return False
		}
		xs = append(xs, t)
	}
	if len(xs) == 0 {
		return True
	}
	if len(xs) == 1 {
		return xs[0]
	}
	return App(SBool, "and", xs...)
}

func Or(ts ...Term) Term {
	var xs []Term
	for _, t := range ts {
		if t.S == "false" {
			continue
		}
		if t.S == "true" {
			return True
		}
		xs = append(xs, t)
	}
	if len(xs) == 0 {
		return False
	}
	if len(xs) == 1 {
		return xs[0]
	}
	return App(SBool, "or", xs...)
}

func Not(t Term) Term {
	if t.S == "true" {
		return False
	}
	if t.S == "false" {
		return True
	}
	return App(SBool, "not", t)
}

func Implies(a, b Term) Term {
	if a.S == "true" {
		return b
	}
	if a.S == "false" || b.S == "true" {
		return True
	}
	return App(SBool, "=>", a, b)
}

func Eq(a, b Term) Term {
	if a.S == b.S {
		return True
	}
	return App(SBool, "=", a, b)
}

func Ite(c, a, b Term) Term {
	if c.S == "true" {
		return a
	}
	if c.S == "false" {
		return b
	}
	return App(a.Sort, "ite", c, a, b)
}

func Select(arr, idx Term, elem Sort) Term { return App(elem, "select", arr, idx) }
func Store(arr, idx, v Term) Term          { return App(arr.Sort, "store", arr, idx, v) }

func ArraySort(idx, elem Sort) Sort { return Sort(fmt.Sprintf("(Array %s %s)", idx, elem)) }

func ConstArray(sort Sort, v Term) Term {
	return Term{fmt.Sprintf("((as const %s) %s)", sort, v.S), sort}
}

func Forall(vars []Term, body Term, patterns ...Term) Term {
	return quant("forall", vars, body, patterns)
}
func Exists(vars []Term, body Term, patterns ...Term) Term {
	return quant("exists", vars, body, patterns)
}

func quant(q string, vars []Term, body Term, patterns []Term) Term {
	var b strings.Builder
	b.WriteString("(" + q + " (")
	for _, v := range vars {
		fmt.Fprintf(&b, "(%s %s)", v.S, v.Sort)
	}
	b.WriteString(") ")
	if len(patterns) > 0 {
		b.WriteString("(! " + body.S + " :pattern (")
		for i, p := range patterns {
			if i > 0 {
				b.WriteString(" ")
			}
			b.WriteString(p.S)
		}
		b.WriteString("))")
	} else {
		b.WriteString(body.S)
	}
	b.WriteString(")")
	return Term{b.String(), SBool}
}

// mangle turns arbitrary text into an SMT simple-symbol fragment.
func mangle(s string) string {
	var b strings.Builder
	for _, c := range s {
		switch {
		case c >= 'a' && c <= 'z', c >= 'A' && c <= 'Z', c >= '0' && c <= '9', c == '_':
			b.WriteRune(c)
		case c == ' ':
		default:
			b.WriteByte('_')
		}
	}
	return b.String()
}

// ---------------------------------------------------------------------------------------------
// Solver runner

type SolverResult struct {
	Status  string // unsat | sat | unknown | timeout | error
	Solver  string
	Output  string
	Seconds float64
	Tried   []string
}

type solverSpec struct {
	name string
	args func(timeoutS int, file string) []string
	bin  string
	prep func(q string) string
}

func cvc5Prep(q string) string {
	// cvc5: options before set-logic; needs explicit logic; z3-specific options are dropped.
	q = strings.Replace(q, "(set-option :smt.mbqi true)\n", "", 1)
	return "(set-option :produce-models true)\n(set-logic ALL)\n" + q
}

var solvers = []solverSpec{
	{name: "z3-new", bin: "z3-new", args: func(t int, f string) []string { return []string{fmt.Sprintf("-T:%d", t), f} }},
	{name: "z3", bin: "z3", args: func(t int, f string) []string { return []string{fmt.Sprintf("-T:%d", t), f} }},
	{name: "cvc5", bin: "cvc5", args: func(t int, f string) []string {
		return []string{fmt.Sprintf("--tlimit=%d", t*1000), "--produce-models", f}
	}, prep: cvc5Prep},
}

func findSolver(name string) *solverSpec {
	for i := range solvers {
		if solvers[i].name == name {
			return &solvers[i]
		}
	}
	return nil
}

// RunQuery races the solvers on the query (a portfolio: all start at once, the first sat/unsat answer wins and
// the others are killed).
func RunQuery(tmpdir, name, query string, timeoutS int, order []string) SolverResult {
	type one struct {
		sp     *solverSpec
		status string
		out    string
		el     float64
	}
	start := time.Now()
	ctx, cancel := context.WithTimeout(context.Background(), time.Duration(timeoutS+3)*time.Second)
	defer cancel()
	ch := make(chan one, len(order))
	n := 0
	for _, sn := range order {
		sp := findSolver(sn)
		if sp == nil {
			continue
		}
		n++
		go func(sp *solverSpec) {
			q := query
			if sp.prep != nil {
				q = sp.prep(q)
			}
			file := filepath.Join(tmpdir, mangle(name)+"."+sp.name+".smt2")
			if err := os.WriteFile(file, []byte(q+"\n(check-sat)\n(get-model)\n"), 0o644); err != nil {
				ch <- one{sp, "error", err.Error(), 0}
				return
			}
			t0 := time.Now()
			cmd := exec.CommandContext(ctx, sp.bin, sp.args(timeoutS, file)...)
			var out bytes.Buffer
			cmd.Stdout = &out
			cmd.Stderr = &out
			_ = cmd.Run()
			el := time.Since(t0).Seconds()
			os.Remove(file)
			txt := out.String()
			first := ""
			for _, ln := range strings.Split(txt, "\n") {
				ln = strings.TrimSpace(ln)
				if ln == "" || strings.HasPrefix(ln, "WARNING") || strings.HasPrefix(ln, "(warning") {
					continue
				}
				first = ln
				break
			}
			st := "unknown"
			switch {
			case first == "unsat":
				st = "unsat"
			case first == "sat":
				st = "sat"
			case first == "timeout" || strings.Contains(first, "timeout") || el >= float64(timeoutS) || ctx.Err() != nil:
				st = "timeout"
			case strings.HasPrefix(first, "(error"):
				st = "error"
			}
			ch <- one{sp, st, txt, el}
		}(sp)
	}
	var res SolverResult
	for i := 0; i < n; i++ {
		r := <-ch
		res.Tried = append(res.Tried, fmt.Sprintf("%s:%s:%.2fs", r.sp.name, r.status, r.el))
		if r.status == "unsat" || r.status == "sat" {
			if res.Status != "unsat" && res.Status != "sat" {
				res.Status, res.Solver, res.Output = r.status, r.sp.name, r.out
				cancel() // stop the others
			}
			continue
		}
		if res.Status == "" || (res.Status == "error" && r.status != "error") {
			res.Status, res.Solver, res.Output = r.status, r.sp.name, r.out
		}
	}
	res.Seconds = time.Since(start).Seconds()
	return res
}

// ForallAlt is Forall with ALTERNATIVE single-term patterns (each one triggers on its own).
func ForallAlt(vars []Term, body Term, patterns ...Term) Term {
	var b strings.Builder
	b.WriteString("(forall (")
	for _, v := range vars {
		fmt.Fprintf(&b, "(%s %s)", v.S, v.Sort)
	}
	b.WriteString(") (! " + body.S)
	for _, p := range patterns {
		b.WriteString(" :pattern (" + p.S + ")")
	}
	b.WriteString("))")
	return Term{b.String(), SBool}
}
