package main

import (
	"fmt"
	"regexp/syntax"
	"strings"
)

// regexToSMT translates an RE2 pattern (as used with MatchString: unanchored unless ^/$ are present)
// into an SMT-LIB regular language accepting exactly the strings MatchString accepts.
// Characters are bytes; classes are clamped to 0..255 (T7).
func regexToSMT(pat string) (string, error) {
	re, err := syntax.Parse(pat, syntax.Perl)
	if err != nil {
		return "", err
	}
	re = re.Simplify()
	return reTop(re)
}

func reTop(re *syntax.Regexp) (string, error) {
	switch re.Op {
	case syntax.OpAlternate:
		var alts []string
		for _, s := range re.Sub {
			a, err := reTop(s)
			if err != nil {
				return "", err
			}
			alts = append(alts, a)
		}
		return "(re.union " + strings.Join(alts, " ") + ")", nil
	case syntax.OpCapture:
		return reTop(re.Sub[0])
	}
	subs := []*syntax.Regexp{re}
	if re.Op == syntax.OpConcat {
		subs = re.Sub
	}
	begin, end := false, false
	if len(subs) > 0 && subs[0].Op == syntax.OpBeginText {
		begin = true
		subs = subs[1:]
	}
	if len(subs) > 0 && subs[len(subs)-1].Op == syntax.OpEndText {
		end = true
		subs = subs[:len(subs)-1]
	}
	var parts []string
	if !begin {
		parts = append(parts, "re.all")
	}
	for _, s := range subs {
		p, err := reBody(s)
		if err != nil {
			return "", err
		}
		parts = append(parts, p)
	}
	if !end {
		parts = append(parts, "re.all")
	}
	if len(parts) == 0 {
		return `(str.to_re "")`, nil
	}
	if len(parts) == 1 {
		return parts[0], nil
	}
	return "(re.++ " + strings.Join(parts, " ") + ")", nil
}

func smtChar(r rune) string {
	if r > 255 {
		r = 255
	}
	return StrLit(string([]byte{byte(r)})).S
}

func reBody(re *syntax.Regexp) (string, error) {
	switch re.Op {
	case syntax.OpEmptyMatch:
		return `(str.to_re "")`, nil
	case syntax.OpLiteral:
		if re.Flags&syntax.FoldCase != 0 {
			var parts []string
			for _, r := range re.Rune {
				lo, up := strings.ToLower(string(r)), strings.ToUpper(string(r))
				if lo == up {
					parts = append(parts, "(str.to_re "+StrLit(string(r)).S+")")
				} else {
					parts = append(parts, "(re.union (str.to_re "+StrLit(lo).S+") (str.to_re "+StrLit(up).S+"))")
				}
			}
			if len(parts) == 1 {
				return parts[0], nil
			}
			return "(re.++ " + strings.Join(parts, " ") + ")", nil
		}
		return "(str.to_re " + StrLit(string(re.Rune)).S + ")", nil
	case syntax.OpCharClass:
		var parts []string
		for i := 0; i+1 < len(re.Rune); i += 2 {
			lo, hi := re.Rune[i], re.Rune[i+1]
			if lo > 255 {
				continue
			}
			if lo == hi {
				parts = append(parts, "(str.to_re "+smtChar(lo)+")")
			} else {
				parts = append(parts, "(re.range "+smtChar(lo)+" "+smtChar(hi)+")")
			}
		}
		if len(parts) == 0 {
			return "re.none", nil
		}
		if len(parts) == 1 {
			return parts[0], nil
		}
		return "(re.union " + strings.Join(parts, " ") + ")", nil
	case syntax.OpAnyChar:
		return "re.allchar", nil
	case syntax.OpAnyCharNotNL:
		return `(re.diff re.allchar (str.to_re "\u{a}"))`, nil
	case syntax.OpCapture:
		return reBody(re.Sub[0])
	case syntax.OpStar, syntax.OpPlus, syntax.OpQuest:
		s, err := reBody(re.Sub[0])
		if err != nil {
			return "", err
		}
		op := map[syntax.Op]string{syntax.OpStar: "re.*", syntax.OpPlus: "re.+", syntax.OpQuest: "re.opt"}[re.Op]
		return "(" + op + " " + s + ")", nil
	case syntax.OpRepeat:
		s, err := reBody(re.Sub[0])
		if err != nil {
			return "", err
		}
		if re.Max < 0 {
			return fmt.Sprintf("(re.++ ((_ re.loop %d %d) %s) (re.* %s))", re.Min, re.Min, s, s), nil
		}
		return fmt.Sprintf("((_ re.loop %d %d) %s)", re.Min, re.Max, s), nil
	case syntax.OpConcat, syntax.OpAlternate:
		var parts []string
		for _, sub := range re.Sub {
			p, err := reBody(sub)
			if err != nil {
				return "", err
			}
			parts = append(parts, p)
		}
		op := "re.++"
		if re.Op == syntax.OpAlternate {
			op = "re.union"
		}
		if len(parts) == 1 {
			return parts[0], nil
		}
		return "(" + op + " " + strings.Join(parts, " ") + ")", nil
	}
	return "", fmt.Errorf("regex: unsupported construct %s in %q", re.Op, re.String())
}
