package main

import (
	"encoding/json"
	"flag"
	"fmt"
	"go/ast"
	"go/types"
	"math/rand"
	"os"
	"os/exec"
	"path/filepath"
	"sort"
	"strconv"
	"strings"
	"sync"
	"time"

	"golang.org/x/tools/go/ssa"
)

const verifDir = "/verif"

// outDir is where evidence and replay files go (GOVC_OUT overrides it for must-fail runs on scratch copies).
func outDir() string {
	if d := os.Getenv("GOVC_OUT"); d != "" {
		return d
	}
	return verifDir
}

type KnownFinding struct {
	Property   string `json:"property"`
	Obligation string `json:"obligation"` // obligation name (exact) or prefix ending in '*'
	What       string `json:"what"`
	Witness    string `json:"witness,omitempty"`
}

type FixedEntry struct {
	Property string `json:"property"`
	Commit   string `json:"commit"`
	What     string `json:"what"`
}

type KnownFile struct {
	Findings []KnownFinding `json:"findings"`
	Fixed    []FixedEntry   `json:"fixed"`
}

func loadKnown() KnownFile {
	var k KnownFile
	b, err := os.ReadFile(filepath.Join(verifDir, "known_findings.json"))
	if err == nil {
		json.Unmarshal(b, &k)
	}
	return k
}

func hasProp(props []string, p string) bool {
	for _, x := range props {
		if x == p {
			return true
		}
	}
	return false
}

// labelProp returns the property a clause label belongs to ("" = all).
func labelProp(label string) string {
	if i := strings.Index(label, "."); i > 0 && strings.HasPrefix(label, "C") {
		return label[:i]
	}
	return ""
}

type failure struct {
	Obligation string
	Func       string
	Where      string
	Desc       string
	Status     string
	Tried      []string
	Output     string
	Reason     string
}

func cmdCheck(args []string) int {
	fs := flag.NewFlagSet("check", flag.ExitOnError)
	prop := fs.String("p", "", "property id")
	tier := fs.String("tier", "quick", "quick|thorough")
	timeout := fs.Int("timeout", 30, "per-solver timeout in seconds")
	jobs := fs.Int("j", 8, "parallel obligations (each races three solvers)")
	noHints := fs.Bool("no-hints", false, "never try the recorded unsat-core hints first")
	record := fs.Bool("record-hints", false, "record unsat cores of discharged obligations under /verif/hints")
	fs.Parse(args)
	if *prop == "" {
		fmt.Fprintln(os.Stderr, "check: -p Cxx required")
		return 2
	}
	if t := os.Getenv("VERIF_TIER"); t == "quick" || t == "thorough" {
		*tier = t
	}
	seed := 0
	if s := os.Getenv("VERIF_SEED"); s != "" {
		seed, _ = strconv.Atoi(s)
	}
	start := time.Now()
	P, err := LoadProgram()
	if err != nil {
		fmt.Fprintln(os.Stderr, "govc: cannot load repository:", err)
		return 2
	}
	S, err := LoadSpecs(P, filepath.Join(verifDir, "contracts"))
	if err != nil {
		fmt.Fprintln(os.Stderr, "govc:", err)
		return 2
	}
	loadS := time.Since(start).Seconds()
	pid := *prop
	var keys []string
	for k, c := range S.Contracts {
		if !c.Extern && !c.Trusted && (hasProp(c.Props, pid) || hasProp(S.Universal, pid)) {
			keys = append(keys, k)
		}
	}
	sort.Strings(keys)
	seenKey := map[string]bool{}
	for _, k := range keys {
		seenKey[k] = true
	}
	noSupport := os.Getenv("GOVC_NOSUPPORT") != ""
	reliedAll := map[string]bool{}
	var fails []failure
	var vcs []*FuncVC
	var outOfReach []string
	typeMethodsOK := 0
	// work list: the functions that carry the property, then (transitively) every function whose proved contract
	// one of them relies on at a call site — those contribute ALL their obligations, whatever their labels, because
	// the caller's proof assumed all their postconditions
	direct := map[string]bool{}
	for _, k := range keys {
		direct[k] = true
	}
	supporting := 0
	for wi := 0; wi < len(keys); wi++ {
		k := keys[wi]
		insts := P.Instances(k)
		if len(insts) == 0 {
			if direct[k] {
				fails = append(fails, failure{Obligation: k + "/contract-target", Func: k, Reason: "contract stale: function " + k + " not found in the repository", Status: "missing"})
			}
			continue
		}
		con := S.Contracts[k]
		if con == nil {
			con = &Contract{Key: k}
		}
		if !direct[k] {
			supporting++
		}
		for _, fn := range insts {
			vc := NewFuncVC(P, S, fn, con)
			vc.Encode()
			if !noSupport {
				var rk []string
				for r := range vc.relied {
					rk = append(rk, r)
				}
				sort.Strings(rk)
				for _, r := range rk {
					if seenKey[r] {
						continue
					}
					if rc := S.Contracts[r]; rc != nil && (rc.Extern || rc.Trusted) {
						continue
					}
					seenKey[r] = true
					keys = append(keys, r)
				}
			}
			if len(vc.errs) > 0 {
				fails = append(fails, failure{Obligation: k + "/contract-resolve", Func: k, Reason: "contract stale or unresolvable: " + strings.Join(vc.errs, "; "), Status: "error"})
			}
			for _, u := range vc.unsupported {
				outOfReach = append(outOfReach, k+": "+u)
			}
			// filter clauses labelled for other properties
			var keep []*Obligation
			for _, o := range vc.obls {
				keep = append(keep, o)
			}
			vc.obls = keep
			vcs = append(vcs, vc)
			for r := range vc.relied {
				reliedAll[r] = true
			}
		}
	}
	// a function some caller in this check relies on contributes all its obligations; the others only those that
	// are unlabelled or labelled for this property
	for _, vc := range vcs {
		var keep []*Obligation
		for _, o := range vc.obls {
			switch {
			case labelCounts(o.Label, pid):
				keep = append(keep, o)
			case noSupport:
			case strings.HasPrefix(o.Kind, "assert:"):
				// a call-site assertion is assumed by what follows it in the same function
				keep = append(keep, o)
			case reliedAll[vc.key] && !o.LocalPost:
				// callers assumed this function's postconditions (those with locals are never assumed)
				keep = append(keep, o)
			}
		}
		vc.obls = keep
	}
	// lemmas
	lvc := lemmaVC(P, S, pid)
	if lvc != nil {
		if len(lvc.errs) > 0 {
			fails = append(fails, failure{Obligation: "lemmas/resolve", Reason: strings.Join(lvc.errs, "; "), Status: "error"})
		}
		vcs = append(vcs, lvc)
	}
	// global invariants: proved of the package init functions of every package that owns a function under check
	pkgsSeen := map[string]bool{}
	for _, vc := range vcs {
		for p := range vc.usedInvPkgs {
			pkgsSeen[p] = true
		}
	}
	for _, ivc := range initVCs(P, S, pkgsSeen) {
		if len(ivc.errs) > 0 {
			fails = append(fails, failure{Obligation: ivc.key + "/contract-resolve", Func: ivc.key, Reason: "global invariant unresolvable: " + strings.Join(ivc.errs, "; "), Status: "error"})
		}
		vcs = append(vcs, ivc)
	}
	// declared method sets
	for _, tm := range S.TypeMethods {
		if !labelCounts(tm.Label, pid) || labelProp(tm.Label) == "" && !hasProp(S.Universal, pid) {
			continue
		}
		got, ok := methodSetOf(P, tm.Type)
		want := append([]string{}, tm.Methods...)
		sort.Strings(want)
		if !ok {
			fails = append(fails, failure{Obligation: "type-methods:" + tm.Type, Reason: tm.Where + ": type " + tm.Type + " not found", Status: "missing"})
		} else if extra, missing := methodSetDiff(got, want); len(missing) == 0 && len(extra) > 0 && !anyDispatched(extra) {
			// a new method that no standard-library interface picks up (an accessor, a String method on a type that is
			// never formatted as a decode target, ...) cannot reroute the library's I/O or decoding: noted, not a violation
			typeMethodsOK++
			extraMethodNotes = append(extraMethodNotes, "type "+tm.Type+" has methods beyond the declared set that no standard-library interface dispatches to: "+strings.Join(extra, " "))
		} else if strings.Join(got, " ") != strings.Join(want, " ") {
			fails = append(fails, failure{Obligation: "type-methods:" + tm.Type, Where: tm.Where, Desc: "the method set of *" + tm.Type + " is exactly {" + strings.Join(want, " ") + "}",
				Reason: "the method set is {" + strings.Join(got, " ") + "}: a method that library code finds by dynamic dispatch (io.ReaderFrom, json.Unmarshaler, ...) changes behaviour no call site shows", Status: "scan"})
		} else {
			typeMethodsOK++
		}
	}
	for _, w := range globalWriters(P, S, pkgsSeen) {
		fails = append(fails, failure{Obligation: "global-inv/writer:" + w, Reason: "a function other than the package initialiser writes a package-level table that a global invariant describes: " + w, Status: "scan"})
	}
	tmp, _ := os.MkdirTemp("", "govc-")
	defer os.RemoveAll(tmp)
	solvers := []string{"z3-new", "z3", "cvc5"}
	opts := RunOpts{TimeoutS: *timeout, Solvers: solvers, TmpDir: tmp, Jobs: *jobs, KeepDir: os.Getenv("GOVC_KEEPDIR")}
	if *tier == "thorough" {
		// thorough: everything quick does, plus (a) the full (unsliced) query of every obligation that the quick
		// tier discharges on its recorded hint slice, (b) vacuity guards re-run with a longer timeout instead of
		// being taken from the record, (c) the must-fail corpus of this property replayed on scratch copies
		if opts.TimeoutS < 60 {
			opts.TimeoutS = 60
		}
		opts.Cross = 20
		opts.Fresh = true
	}
	if !*noHints && os.Getenv("GOVC_NOHINTS") == "" {
		opts.Hints = NewHintDB()
		opts.Record = *record
	}
	opts.Short = map[string]bool{}
	for _, kf := range loadKnown().Findings {
		if !strings.HasSuffix(kf.Obligation, "*") {
			opts.Short[kf.Obligation] = true
		}
	}
	Discharge(vcs, opts)
	if opts.Hints != nil && opts.Record {
		for _, vc := range vcs {
			vc.saveNameTable()
		}
		if err := opts.Hints.Save(); err != nil {
			fmt.Fprintln(os.Stderr, "govc: cannot save hints:", err)
		}
	}

	perBackend := map[string]int{}
	solverTime := 0.0
	nObl, nOK := 0, 0
	var samples []any
	var funcs []string
	assumed := map[string]bool{}
	defaulted := map[string]bool{}
	var notes []string
	covers := 0
	nHinted := 0
	fullConfirmed, fullUndecided := 0, 0
	var fullSat []string
	for _, vc := range vcs {
		funcs = append(funcs, fmt.Sprintf("%s (%d obligations)", vc.key, len(vc.obls)))
		for k := range vc.assumed {
			assumed[k] = true
		}
		for k := range vc.defaulted {
			defaulted[k] = true
		}
		for _, n := range vc.notes {
			notes = append(notes, vc.key+": "+n)
		}
		for _, o := range vc.obls {
			solverTime += o.Result.Seconds
			if o.Cover {
				covers++
				if !o.OK {
					fails = append(fails, failure{Obligation: o.Name, Func: o.Func, Where: o.Where, Desc: o.Desc, Status: o.Result.Status, Tried: o.Result.Tried,
						Reason: "vacuity: no return site is reachable under the assumed contracts (contradictory assumptions)"})
				}
				continue
			}
			nObl++
			if o.OK {
				nOK++
				perBackend[o.Result.Solver]++
				if o.Hinted {
					nHinted++
				}
				switch o.FullStatus {
				case "":
				case "unsat":
					fullConfirmed++
				case "sat":
					fullSat = append(fullSat, o.Name)
				default:
					fullUndecided++
				}
				if len(samples) < 6 {
					samples = append(samples, map[string]string{"obligation": o.Name, "where": o.Where, "goal": o.Desc, "result": "unsat by " + o.Result.Solver})
				}
			} else {
				fails = append(fails, failure{Obligation: o.Name, Func: o.Func, Where: o.Where, Desc: o.Desc, Status: o.Result.Status, Tried: o.Result.Tried, Output: trunc(o.Result.Output, 6000)})
			}
		}
	}
	sort.SliceStable(fails, func(i, j int) bool { return failRank(fails[i].Obligation) < failRank(fails[j].Obligation) })
	// known findings
	known := loadKnown()
	violations := 0
	var knownSeen []string
	os.MkdirAll(filepath.Join(outDir(), "replays"), 0o755)
	var vioLines []string
	for _, f := range fails {
		matched := false
		for _, kf := range known.Findings {
			if kf.Property != pid {
				continue
			}
			if kf.Obligation == f.Obligation || (strings.HasSuffix(kf.Obligation, "*") && strings.HasPrefix(f.Obligation, strings.TrimSuffix(kf.Obligation, "*"))) {
				matched = true
				line := fmt.Sprintf("KNOWN-FINDING: property=%s %s [%s]", pid, kf.What, f.Obligation)
				knownSeen = append(knownSeen, line)
				fmt.Println(line)
				break
			}
		}
		if matched {
			continue
		}
		violations++
		rp := filepath.Join(outDir(), "replays", pid+"-"+mangle(f.Obligation)+".json")
		rep := map[string]any{"property": pid, "obligation": f.Obligation, "function": f.Func, "where": f.Where, "goal": f.Desc,
			"solver_status": f.Status, "solvers_tried": f.Tried, "solver_output": f.Output, "reason": f.Reason,
			"replay": "no-failing-input-found", "repo": repoDir()}
		suffix := " no-failing-input-found"
		if rr := tryReplay(P, S, vcs, f, rep); rr {
			suffix = ""
		}
		b, _ := json.MarshalIndent(rep, "", " ")
		os.WriteFile(rp, b, 0o644)
		vioLines = append(vioLines, fmt.Sprintf("VIOLATION property=%s replay=%s%s", pid, rp, suffix))
	}
	// slowest discharged obligations (stability margin)
	type slow struct {
		n string
		s float64
	}
	var slows []slow
	for _, vc := range vcs {
		for _, o := range vc.obls {
			if o.OK && !o.Cover {
				slows = append(slows, slow{o.Name, o.Result.Seconds})
			}
		}
	}
	sort.Slice(slows, func(i, j int) bool { return slows[i].s > slows[j].s })
	var slowest []string
	for i, sl := range slows {
		if i >= 5 {
			break
		}
		slowest = append(slowest, fmt.Sprintf("%.2fs %s", sl.s, sl.n))
	}
	var corpus []map[string]string
	if *tier == "thorough" && violations == 0 && os.Getenv("GOVC_NOCORPUS") == "" && os.Getenv("GOVC_REPO") == "" {
		corpus = runCorpus(pid)
	}
	for _, n := range fullSat {
		fmt.Fprintln(os.Stderr, "govc: solver disagreement: the full query of", n, "is reported satisfiable although its hint slice was refuted")
	}
	wall := time.Since(start).Seconds()
	// evidence
	var tb []string
	tb = append(tb, "govc VC generator semantics of go/ssa instructions (T1)", "golang.org/x/tools go/ssa lowering of the unmodified sources (T2)",
		"SMT solvers z3 5.1.0 / z3 4.8.12 / cvc5 1.0 (T3)", "mathematical integers with explicit overflow obligations (T6)", "SMT strings as byte strings; []byte contents as values of the slice header (T7)")
	var as []string
	for k := range assumed {
		as = append(as, "assumed contract: "+k)
	}
	for k := range defaulted {
		as = append(as, "default contract (returns normally, modifies only objects directly passed by pointer/map/slice): "+k)
	}
	sort.Strings(as)
	notes = append(notes, extraMethodNotes...)
	sort.Strings(notes)
	ev := map[string]any{
		"property_id": pid, "tier": *tier, "seed": seed, "level": "proof",
		"coverage": map[string]any{
			// obligations listed as known findings are not claimed as proved: they are counted apart
			"obligations": nObl - len(knownSeen), "discharged": nOK,
			"known_finding_obligations_not_discharged": len(knownSeen),
			"checker_cmd":              fmt.Sprintf("/verif/bin/govc check -p %s -tier %s", pid, *tier),
			"trusted_base":             tb,
			"functions_under_contract": funcs,
			"per_backend":              perBackend,
			"solver_time_s":            round2(solverTime),
			"load_ssa_s":               round2(loadS),
			"cover_queries":            covers,
			"type_method_sets_checked": typeMethodsOK,
			"supporting_functions":     supporting,
			"discharged_on_hint_slice": nHinted,
			"full_query_confirmed":     fullConfirmed,
			"full_query_undecided":     fullUndecided,
			"full_query_disagreement":  fullSat,
			"must_fail_corpus":         corpus,
			"slowest_discharged":       slowest,
			"out_of_reach":             outOfReach,
			"samples":                  samples,
			"known_findings_seen":      knownSeen,
			"notes":                    notes,
			"explanation":              "every obligation is an SMT query generated from the go/ssa form of /repo's current sources and the //@ contracts; discharged = unsat. Back ends suffixed +hint refuted the query restricted to the hypotheses of a recorded unsat core (a subset of the full query's hypotheses, so the refutation is valid for the full query); all others refuted the full query",
		},
		"assumptions": as,
		"wall_s":      round2(wall),
		"violations":  violations,
	}
	os.MkdirAll(filepath.Join(outDir(), "evidence"), 0o755)
	b, _ := json.MarshalIndent(ev, "", " ")
	os.WriteFile(filepath.Join(outDir(), "evidence", pid+".json"), b, 0o644)
	fmt.Printf("property %s: %d functions under contract, %d obligations, %d discharged, %d known findings, %d violations, %.1fs\n",
		pid, len(vcs), nObl, nOK, len(knownSeen), violations, wall)
	for i, f := range fails {
		if i >= 15 {
			fmt.Printf("  ... and %d more failed obligations (all are listed in the evidence and replay files)\n", len(fails)-i)
			break
		}
		word := "failed"
		for _, kl := range knownSeen {
			if strings.HasSuffix(kl, "["+f.Obligation+"]") {
				word = "known finding, not discharged"
			}
		}
		fmt.Printf("  %s: %s [%s] %s %s %s\n", word, f.Obligation, f.Status, f.Where, trunc(f.Desc, 120), trunc(f.Reason, 400))
	}
	for i, l := range vioLines {
		if i >= 15 {
			fmt.Printf("(%d further VIOLATION lines suppressed; replay files are written for all)\n", len(vioLines)-i)
			break
		}
		fmt.Println(l)
	}
	if nObl == 0 && len(fails) == 0 {
		fmt.Fprintln(os.Stderr, "govc: no obligations generated for", pid, "(vacuous check)")
		return 2
	}
	if violations > 0 {
		return 1
	}
	return 0
}

func round2(f float64) float64 { return float64(int(f*100+0.5)) / 100 }

// lemmaVC builds a pseudo function VC holding the lemmas of a property.
func lemmaVC(P *Program, S *Specs, pid string) *FuncVC {
	var ls []*Lemma
	for _, l := range S.Lemmas {
		if hasProp(l.Props, pid) {
			ls = append(ls, l)
		}
	}
	if len(ls) == 0 {
		return nil
	}
	vc := &FuncVC{P: P, S: S, key: "lemmas"}
	vc.tc = NewTypeCtx()
	vc.resetLemma()
	st := &State{ver: map[string]string{}}
	vc.entry = st
	vc.ensureComp("alloc", ArraySort(SRef, SBool))
	vc.assumeAxioms(&Env{vc: vc, st: st, old: st, vars: map[string]SVal{}})
	// a lemma may rely on the global invariants declared in its own package (proved of that package's init)
	seenPkg := map[string]bool{}
	for _, l := range ls {
		if l.Clause.Ctx == nil || l.Clause.Ctx.Pkg == nil || seenPkg[l.Clause.Ctx.Pkg.Path()] {
			continue
		}
		seenPkg[l.Clause.Ctx.Pkg.Path()] = true
		for _, gi := range S.GlobalInv {
			if gi.Ctx == nil || gi.Ctx.Pkg == nil || gi.Ctx.Pkg.Path() != l.Clause.Ctx.Pkg.Path() {
				continue
			}
			env := &Env{vc: vc, st: st, old: st, vars: map[string]SVal{}, ctx: gi.Ctx}
			if t, err := env.Bool(gi.Expr); err == nil {
				vc.assume(True, t)
				if vc.usedInvPkgs == nil {
					vc.usedInvPkgs = map[string]bool{}
				}
				vc.usedInvPkgs[gi.Ctx.Pkg.Path()] = true
			}
		}
	}
	for _, l := range ls {
		env := &Env{vc: vc, st: st, old: st, vars: map[string]SVal{}, ctx: l.Clause.Ctx}
		t, err := env.Bool(l.Clause.Expr)
		if err != nil {
			vc.errorf("%s: lemma %s: %v", l.Clause.Where, l.Label, err)
			continue
		}
		vc.kindN["lemma:"+l.Label]++
		o := &Obligation{Name: "lemma:" + l.Label, Kind: "lemma", Label: l.Label, Func: "lemmas", Where: l.Clause.Where, Desc: "lemma: " + l.Clause.Raw,
			Guard: True, Goal: t, Cut: len(vc.decls)}
		vc.obls = append(vc.obls, o)
	}
	return vc
}

func (vc *FuncVC) resetLemma() {
	tc := vc.tc
	vc.reset(false)
	vc.tc = tc
}

// tryReplay is implemented in replay.go

func failRank(name string) int {
	switch {
	case strings.Contains(name, "/contract-"):
		return 0
	case strings.Contains(name, "/post:"), strings.Contains(name, "/assert:"), strings.HasPrefix(name, "lemma:"):
		return 1
	case strings.Contains(name, "/inv-"), strings.Contains(name, "/exit-assert"), strings.Contains(name, "/pre@"):
		return 2
	case strings.Contains(name, "/frame"):
		return 3
	}
	return 4
}

// initVCs verifies the global invariants as postconditions of the owning packages' init functions.
func initVCs(P *Program, S *Specs, pkgs map[string]bool) []*FuncVC {
	byPkg := map[string][]*Clause{}
	for _, gi := range S.GlobalInv {
		if gi.Ctx != nil && gi.Ctx.Pkg != nil {
			byPkg[gi.Ctx.Pkg.Path()] = append(byPkg[gi.Ctx.Pkg.Path()], gi)
		}
	}
	var out []*FuncVC
	var paths []string
	for p := range byPkg {
		paths = append(paths, p)
	}
	sort.Strings(paths)
	for _, p := range paths {
		if !pkgs[p] {
			continue // no function under check relies on this package's invariants
		}
		key := shortPkg(p) + ".init"
		fn := P.Func(key)
		if fn == nil {
			continue
		}
		con := &Contract{Key: key, Ctx: byPkg[p][0].Ctx, Where: byPkg[p][0].Where, NoOverflow: true}
		for _, gi := range byPkg[p] {
			c := *gi
			c.Kind = "ensures"
			c.Label = "global-inv"
			con.Ensures = append(con.Ensures, &c)
		}
		vc := NewFuncVC(P, S, fn, con)
		vc.isInit = true
		vc.Encode()
		out = append(out, vc)
	}
	return out
}

// globalWriters scans the repository for stores to the package-level variables mentioned by global
// invariants (and to maps / slices / objects loaded from them) outside the package initialisers.
func globalWriters(P *Program, S *Specs, pkgs map[string]bool) []string {
	tracked := map[string]bool{}
	for _, gi := range S.GlobalInv {
		if gi.Ctx == nil || gi.Ctx.Pkg == nil {
			continue
		}
		ast.Inspect(gi.Expr, func(n ast.Node) bool {
			if id, ok := n.(*ast.Ident); ok {
				if v, ok := gi.Ctx.Pkg.Scope().Lookup(id.Name).(*types.Var); ok {
					tracked[v.Pkg().Path()+"."+v.Name()] = true
				}
			}
			return true
		})
	}
	var chase func(v ssa.Value, depth int) string
	chase = func(v ssa.Value, depth int) string {
		if depth > 6 {
			return ""
		}
		switch x := v.(type) {
		case *ssa.Global:
			if tracked[x.Pkg.Pkg.Path()+"."+x.Name()] {
				return x.Pkg.Pkg.Path() + "." + x.Name()
			}
		case *ssa.UnOp:
			return chase(x.X, depth+1)
		case *ssa.FieldAddr:
			return chase(x.X, depth+1)
		case *ssa.IndexAddr:
			return chase(x.X, depth+1)
		case *ssa.Slice:
			return chase(x.X, depth+1)
		}
		return ""
	}
	var out []string
	for _, fn := range P.RepoFuncs() {
		for _, b := range fn.Blocks {
			for _, ins := range b.Instrs {
				var g string
				switch x := ins.(type) {
				case *ssa.Store:
					g = chase(x.Addr, 0)
				case *ssa.MapUpdate:
					g = chase(x.Map, 0)
				}
				if g != "" {
					out = append(out, fmt.Sprintf("%s writes %s at %s", FuncKey(fn), g, P.Pos(ins.Pos())))
				}
			}
		}
	}
	sort.Strings(out)
	return out
}

// labelCounts: an obligation counts for property pid if it is unlabelled or one of its (comma separated)
// labels belongs to pid.
func labelCounts(label, pid string) bool {
	any := false
	for _, l := range strings.Split(label, ",") {
		lp := labelProp(strings.TrimSpace(l))
		if lp == "" {
			continue
		}
		any = true
		if lp == pid {
			return true
		}
	}
	return !any
}

// runCorpus replays the must-fail corpus of a property (seeded changes and mutants kept under /verif) against scratch
// copies of the repository and reports, per case, whether the quick check raises a violation there. A miss is a
// weakness of the machinery, not a violation of the property: it is reported, never turned into an exit status.
func runCorpus(pid string) []map[string]string {
	var patches []string
	if ds, _ := filepath.Glob(filepath.Join(verifDir, "seeded", pid+"-*", "patch.diff")); ds != nil {
		patches = append(patches, ds...)
	}
	for _, pat := range []string{"*.diff", "*.patch"} {
		if ds, _ := filepath.Glob(filepath.Join(verifDir, "mutants", pid, pat)); ds != nil {
			patches = append(patches, ds...)
		}
	}
	sort.Strings(patches)
	// at most eight cases per run, chosen by VERIF_SEED (every case is run by tools/selftest.py)
	if len(patches) > 8 {
		seed := int64(1)
		if s := os.Getenv("VERIF_SEED"); s != "" {
			if v, err := strconv.ParseInt(s, 10, 64); err == nil {
				seed = v
			}
		}
		rng := rand.New(rand.NewSource(seed))
		rng.Shuffle(len(patches), func(i, j int) { patches[i], patches[j] = patches[j], patches[i] })
		patches = patches[:8]
		sort.Strings(patches)
	}
	out := make([]map[string]string, len(patches))
	sem := make(chan struct{}, 2)
	var wg sync.WaitGroup
	self, _ := os.Executable()
	for i, pf := range patches {
		wg.Add(1)
		go func(i int, pf string) {
			defer wg.Done()
			sem <- struct{}{}
			defer func() { <-sem }()
			res := map[string]string{"case": strings.TrimPrefix(pf, verifDir+"/")}
			out[i] = res
			d, err := os.MkdirTemp("", "govc-corpus-")
			if err != nil {
				res["result"] = "error: " + err.Error()
				return
			}
			defer os.RemoveAll(d)
			if b, err := exec.Command("rsync", "-a", "--exclude", ".git", repoDir()+"/", d+"/repo/").CombinedOutput(); err != nil {
				res["result"] = "error: copy: " + trunc(string(b), 200)
				return
			}
			pc := exec.Command("patch", "-p1", "-s", "-i", pf)
			pc.Dir = d + "/repo"
			if b, err := pc.CombinedOutput(); err != nil {
				res["result"] = "skipped: patch does not apply to the current tree: " + trunc(string(b), 120)
				return
			}
			c := exec.Command(self, "check", "-p", pid, "-tier", "quick")
			c.Env = append(os.Environ(), "GOVC_REPO="+d+"/repo", "GOVC_OUT="+d+"/out", "VERIF_TIER=quick")
			b, _ := c.CombinedOutput()
			switch {
			case c.ProcessState != nil && c.ProcessState.ExitCode() == 1 && strings.Contains(string(b), "VIOLATION property="+pid):
				res["result"] = "detected"
				for _, ln := range strings.Split(string(b), "\n") {
					if strings.HasPrefix(ln, "  failed: ") {
						res["first_failed_obligation"] = strings.Fields(ln)[1]
						break
					}
				}
			case c.ProcessState != nil && c.ProcessState.ExitCode() == 0:
				res["result"] = "MISSED"
				fmt.Fprintln(os.Stderr, "govc: must-fail corpus case not detected:", pf)
			default:
				res["result"] = "error: " + trunc(string(b), 200)
			}
		}(i, pf)
	}
	wg.Wait()
	return out
}

// methodSetOf returns the sorted names of the methods of *T (value and pointer receivers) for a type key "pkg/path.T"
// (short repository package paths as in function keys).
func methodSetOf(P *Program, key string) ([]string, bool) {
	i := strings.LastIndex(key, ".")
	if i < 0 {
		return nil, false
	}
	pk, tn := key[:i], key[i+1:]
	for _, sp := range P.SSA.AllPackages() {
		if sp.Pkg == nil || (shortPkg(sp.Pkg.Path()) != pk && sp.Pkg.Path() != pk) {
			continue
		}
		o := sp.Pkg.Scope().Lookup(tn)
		if o == nil {
			continue
		}
		named, ok := o.Type().(*types.Named)
		if !ok {
			continue
		}
		ms := types.NewMethodSet(types.NewPointer(named))
		var out []string
		for j := 0; j < ms.Len(); j++ {
			out = append(out, ms.At(j).Obj().Name())
		}
		sort.Strings(out)
		return out, true
	}
	return nil, false
}

var extraMethodNotes []string

// dispatchedMethods: methods the standard library looks for by interface assertion on a value it was handed
// (io, bufio, encoding/json, encoding, fmt, errors, sort, flag, database/sql/driver-like hooks are the ones that matter here).
var dispatchedMethods = map[string]bool{
	"ReadFrom": true, "WriteTo": true, "WriteString": true, "WriteByte": true, "ReadByte": true, "WriteRune": true, "ReadRune": true,
	"ReadAt": true, "WriteAt": true, "Seek": true, "Close": true, "Read": true, "Write": true, "Flush": true, "Available": true,
	"UnmarshalJSON": true, "MarshalJSON": true, "UnmarshalText": true, "MarshalText": true, "UnmarshalBinary": true, "MarshalBinary": true,
	"UnmarshalCBOR": true, "MarshalCBOR": true, "GobDecode": true, "GobEncode": true, "AppendText": true, "AppendBinary": true,
	"Format": true, "GoString": true, "String": true, "Error": true, "Is": true, "As": true, "Unwrap": true, "Scan": true, "Value": true,
	"Len": true, "Less": true, "Swap": true, "Set": true, "Get": true, "Stat": true, "ReadDir": true, "ReadFile": true, "Open": true,
}

func methodSetDiff(got, want []string) (extra, missing []string) {
	w := map[string]bool{}
	g := map[string]bool{}
	for _, m := range want {
		w[m] = true
	}
	for _, m := range got {
		g[m] = true
		if !w[m] {
			extra = append(extra, m)
		}
	}
	for _, m := range want {
		if !g[m] {
			missing = append(missing, m)
		}
	}
	return
}

func anyDispatched(ms []string) bool {
	for _, m := range ms {
		if dispatchedMethods[m] {
			return true
		}
	}
	return false
}
