package main

import (
	"fmt"
	"go/ast"
	"go/token"
	"go/types"
	"os"
	"sort"
	"strings"
	"sync"

	"golang.org/x/tools/go/packages"
	"golang.org/x/tools/go/ssa"
	"golang.org/x/tools/go/ssa/ssautil"
)

const repoModule = "github.com/notaryproject/notation-go"

// Program is the loaded repository: typed ASTs + SSA of the unmodified sources.
type Program struct {
	Fset   *token.FileSet
	Pkgs   []*packages.Package
	SSA    *ssa.Program
	byPath map[string]*packages.Package
	// funcs indexes every SSA function (incl. closures and methods) by key.
	funcs map[string]*ssa.Function

	implMu    sync.Mutex
	implCache map[string][]string
}

func repoDir() string {
	if d := os.Getenv("GOVC_REPO"); d != "" {
		return d
	}
	return "/repo"
}

// LoadProgram type-checks /repo (build tag verif) and builds SSA for the whole
// import closure. This is done on every run: the verified text is the code on disk.
func LoadProgram() (*Program, error) {
	cfg := &packages.Config{
		Mode: packages.NeedName | packages.NeedFiles | packages.NeedCompiledGoFiles | packages.NeedImports |
			packages.NeedDeps | packages.NeedTypes | packages.NeedTypesSizes | packages.NeedSyntax | packages.NeedTypesInfo | packages.NeedModule,
		Dir:        repoDir(),
		BuildFlags: []string{"-tags=verif", "-mod=mod"},
		Env: append(os.Environ(), "GOFLAGS=-mod=mod", "GOPROXY=off", "GOSUMDB=off", "GOTOOLCHAIN=local",
			"CGO_ENABLED=0"),
		Tests: false,
	}
	pkgs, err := packages.Load(cfg, "./...")
	if err != nil {
		return nil, err
	}
	nerr := 0
	packages.Visit(pkgs, nil, func(p *packages.Package) {
		if strings.HasPrefix(p.PkgPath, repoModule) {
			for _, e := range p.Errors {
				fmt.Fprintln(os.Stderr, "load error:", e)
				nerr++
			}
		}
	})
	if nerr > 0 {
		return nil, fmt.Errorf("%d package errors in repository", nerr)
	}
	prog, _ := ssautil.AllPackages(pkgs, ssa.InstantiateGenerics|ssa.GlobalDebug)
	prog.Build()
	P := &Program{Pkgs: pkgs, SSA: prog, byPath: map[string]*packages.Package{}, funcs: map[string]*ssa.Function{}}
	if len(pkgs) > 0 {
		P.Fset = pkgs[0].Fset
	}
	packages.Visit(pkgs, nil, func(p *packages.Package) { P.byPath[p.PkgPath] = p })
	for fn := range ssautil.AllFunctions(prog) {
		if fn.Pkg == nil && fn.Origin() == nil {
			continue
		}
		// the short key of a repository package may coincide with a standard-library one ("log.init" of
		// notation-go/log and of package log): the repository's function wins, whatever the iteration order
		k := FuncKey(fn)
		if old := P.funcs[k]; old != nil && old != fn {
			oldRepo := old.Pkg != nil && strings.HasPrefix(old.Pkg.Pkg.Path(), repoModule)
			newRepo := fn.Pkg != nil && strings.HasPrefix(fn.Pkg.Pkg.Path(), repoModule)
			if oldRepo && !newRepo {
				continue
			}
			if oldRepo == newRepo && fn.Pkg != nil && old.Pkg != nil && old.Pkg.Pkg.Path() < fn.Pkg.Pkg.Path() {
				continue
			}
		}
		P.funcs[k] = fn
	}
	return P, nil
}

// shortPkg turns an import path into the short qualifier used in keys:
// repository packages lose the module prefix ("verifier/trustpolicy"), others keep the full path.
func shortPkg(path string) string {
	if path == repoModule {
		return "notation"
	}
	if strings.HasPrefix(path, repoModule+"/") {
		return strings.TrimPrefix(path, repoModule+"/")
	}
	return path
}

// FuncKey is the stable textual key of a function:
//
//	pkg.Name, pkg.(*T).Method, pkg.(T).Method, closures pkg.Outer$1
func FuncKey(fn *ssa.Function) string {
	if fn.Parent() != nil {
		// closure: parent key + $n taken from the SSA name
		name := fn.Name()
		i := strings.LastIndex(name, "$")
		suffix := name
		if i >= 0 {
			suffix = name[i:]
		}
		return FuncKey(fn.Parent()) + suffix
	}
	pkgPath := ""
	if fn.Pkg != nil {
		pkgPath = fn.Pkg.Pkg.Path()
	} else if o := fn.Origin(); o != nil && o.Pkg != nil {
		pkgPath = o.Pkg.Pkg.Path()
	} else if fn.Object() != nil && fn.Object().Pkg() != nil {
		pkgPath = fn.Object().Pkg().Path()
	}
	sp := shortPkg(pkgPath)
	if recv := fn.Signature.Recv(); recv != nil {
		t := recv.Type()
		ptr := false
		if p, ok := t.(*types.Pointer); ok {
			ptr = true
			t = p.Elem()
		}
		tn := types.TypeString(t, func(*types.Package) string { return "" })
		if i := strings.Index(tn, "["); i >= 0 && fn.Origin() == nil {
			tn = tn[:i]
		}
		if ptr {
			return fmt.Sprintf("%s.(*%s).%s", sp, tn, fn.Name())
		}
		return fmt.Sprintf("%s.(%s).%s", sp, tn, fn.Name())
	}
	return sp + "." + fn.Name()
}

func (P *Program) Func(key string) *ssa.Function { return P.funcs[key] }

// FuncsMatching returns functions whose key has the given suffix after the package part; used for
// lookups by unqualified contract targets inside a package.
func (P *Program) RepoFuncs() []*ssa.Function {
	var out []*ssa.Function
	for _, fn := range P.funcs {
		if fn.Pkg != nil && strings.HasPrefix(fn.Pkg.Pkg.Path(), repoModule) && fn.Synthetic == "" {
			out = append(out, fn)
		}
	}
	sort.Slice(out, func(i, j int) bool { return FuncKey(out[i]) < FuncKey(out[j]) })
	return out
}

// position helper
func (P *Program) Pos(p token.Pos) string {
	if !p.IsValid() {
		return "-"
	}
	pos := P.Fset.Position(p)
	return fmt.Sprintf("%s:%d", strings.TrimPrefix(pos.Filename, repoDir()+"/"), pos.Line)
}

// fileOf returns the AST file containing pos in package p.
func fileOf(p *packages.Package, pos token.Pos) *ast.File {
	for _, f := range p.Syntax {
		if f.Pos() <= pos && pos <= f.End() {
			return f
		}
	}
	return nil
}

// Instances returns the functions to verify for a contract key: the function itself, or, for a generic
// function, every instantiation the program uses.
func (P *Program) Instances(key string) []*ssa.Function {
	fn := P.funcs[key]
	if fn == nil {
		// methods of generic types exist only as instantiations: match keys with type arguments stripped
		var out []*ssa.Function
		for k, f := range P.funcs {
			if f.Origin() != nil && stripBrackets(k) == key {
				out = append(out, f)
			}
		}
		sort.Slice(out, func(i, j int) bool { return FuncKey(out[i]) < FuncKey(out[j]) })
		return out
	}
	if fn.TypeParams().Len() == 0 || len(fn.TypeArgs()) > 0 {
		return []*ssa.Function{fn}
	}
	var out []*ssa.Function
	for _, f := range P.funcs {
		if f.Origin() == fn {
			out = append(out, f)
		}
	}
	sort.Slice(out, func(i, j int) bool { return FuncKey(out[i]) < FuncKey(out[j]) })
	return out
}

func stripBrackets(s string) string {
	var b strings.Builder
	depth := 0
	for _, c := range s {
		switch {
		case c == '[':
			depth++
		case c == ']':
			depth--
		case depth == 0:
			b.WriteRune(c)
		}
	}
	return b.String()
}

// implementers returns the keys of the methods named m of the repository's concrete types that implement interface
// type it (by value or by pointer).
func (P *Program) implementers(it types.Type, m string) []string {
	iface, ok := it.Underlying().(*types.Interface)
	if !ok || iface.NumMethods() == 0 {
		return nil
	}
	ck := types.TypeString(it, nil) + "#" + m
	P.implMu.Lock()
	defer P.implMu.Unlock()
	if P.implCache == nil {
		P.implCache = map[string][]string{}
	}
	if v, ok := P.implCache[ck]; ok {
		return v
	}
	var out []string
	for _, sp := range P.SSA.AllPackages() {
		if sp.Pkg == nil || !strings.HasPrefix(sp.Pkg.Path(), repoModule) || strings.Contains(sp.Pkg.Path(), "internal/mock") {
			continue
		}
		for _, mem := range sp.Members {
			tn, ok := mem.(*ssa.Type)
			if !ok {
				continue
			}
			named, ok := tn.Type().(*types.Named)
			if !ok || named.TypeParams().Len() > 0 {
				continue
			}
			if _, isIface := named.Underlying().(*types.Interface); isIface {
				continue
			}
			for _, recv := range []types.Type{named, types.NewPointer(named)} {
				if !types.Implements(recv, iface) {
					continue
				}
				sel := P.SSA.MethodSets.MethodSet(recv).Lookup(sp.Pkg, m)
				if sel == nil {
					sel = types.NewMethodSet(recv).Lookup(nil, m)
				}
				if sel == nil {
					continue
				}
				if fn := P.SSA.MethodValue(sel); fn != nil && fn.Synthetic == "" {
					out = append(out, FuncKey(fn))
				}
				break
			}
		}
	}
	sort.Strings(out)
	P.implCache[ck] = out
	return out
}
