package main

// `govc sweep`: zero-annotation no-panic sweep (exploration aid, not a registered check). Every repository function
// WITHOUT a contract is encoded with an empty contract in which pointer, interface, map and function parameters are
// assumed non-nil, loops are cut with only the automatic range-index invariant, and callees get their contract or the
// default one. Safety obligations that do not discharge are printed for triage: each is either a missing precondition
// or a genuine way to panic.

import (
	"fmt"
	"go/types"
	"os"
	"sort"
	"strings"

	"golang.org/x/tools/go/ssa"
)

func cmdSweep(args []string) int {
	P, err := LoadProgram()
	if err != nil {
		fmt.Fprintln(os.Stderr, err)
		return 2
	}
	S, err := LoadSpecs(P, verifDir+"/contracts")
	if err != nil {
		fmt.Fprintln(os.Stderr, err)
		return 2
	}
	tmp, _ := os.MkdirTemp("", "govc-")
	defer os.RemoveAll(tmp)
	var vcs []*FuncVC
	for _, fn := range P.RepoFuncs() {
		k := FuncKey(fn)
		if S.Contracts[k] != nil || fn.Parent() != nil || len(fn.Blocks) == 0 || fn.TypeParams().Len() > 0 {
			continue
		}
		if strings.Contains(k, "internal/mock") || strings.HasSuffix(k, ".init") || strings.Contains(k, "testhelper") {
			continue
		}
		sel := len(args) == 0
		for _, a := range args {
			if strings.HasPrefix(k, a) {
				sel = true
			}
		}
		if !sel {
			continue
		}
		con := &Contract{Key: k, NoOverflow: true, HasModifies: true}
		vc := NewFuncVC(P, S, fn, con)
		vc.sweepNonNil = true
		func() {
			defer func() {
				if r := recover(); r != nil {
					fmt.Printf("ENCODE-PANIC %s: %v\n", k, r)
					vc.obls = nil
				}
			}()
			vc.Encode()
		}()
		var keep []*Obligation
		for _, o := range vc.obls {
			if strings.HasPrefix(o.Kind, "panic:") {
				keep = append(keep, o)
			}
		}
		vc.obls = keep
		if len(keep) > 0 || os.Getenv("GOVC_SWEEP_EMIT") != "" {
			vcs = append(vcs, vc)
		}
	}
	emit := os.Getenv("GOVC_SWEEP_EMIT") != ""
	if emit {
		// first without any assumption on the parameters; the functions that need none get a stub without requires
		var plain []*FuncVC
		for _, vc := range vcs {
			pv := NewFuncVC(P, S, vc.fn, vc.con)
			func() {
				defer func() { recover() }()
				pv.Encode()
			}()
			var keep []*Obligation
			for _, o := range pv.obls {
				if strings.HasPrefix(o.Kind, "panic:") {
					keep = append(keep, o)
				}
			}
			pv.obls = keep
			plain = append(plain, pv)
		}
		Discharge(plain, RunOpts{TimeoutS: 10, Solvers: []string{"z3-new", "z3", "cvc5"}, TmpDir: tmp, Jobs: 8})
		noReq := map[string]bool{}
		for _, pv := range plain {
			ok := true
			for _, o := range pv.obls {
				if !o.OK {
					ok = false
				}
			}
			noReq[pv.key] = ok
		}
		defer func() {
			for _, vc := range vcs {
				ok := true
				for _, o := range vc.obls {
					if !o.OK {
						ok = false
					}
				}
				if !ok {
					continue
				}
				fmt.Printf("STUB %s\n//@ func %s\n//@ props C12\n", vc.fn.Pkg.Pkg.Path(), strings.TrimPrefix(vc.key, shortPkg(vc.fn.Pkg.Pkg.Path())+"."))
				if !noReq[vc.key] {
					var rs []string
					for _, p := range vc.fn.Params {
						switch under(p.Type()).(type) {
						case *types.Pointer, *types.Map, *types.Interface:
							rs = append(rs, p.Name()+" != nil")
						case *types.Signature:
							rs = append(rs, "nonnil("+p.Name()+")")
						}
					}
					if len(rs) > 0 {
						fmt.Printf("//@ requires %s\n", strings.Join(rs, " && "))
					}
				}
				fmt.Printf("//@ modifies any\n\n")
			}
		}()
	}
	Discharge(vcs, RunOpts{TimeoutS: 10, Solvers: []string{"z3-new", "z3", "cvc5"}, TmpDir: tmp, Jobs: 8})
	nf, nt := 0, 0
	for _, vc := range vcs {
		sort.SliceStable(vc.obls, func(i, j int) bool { return vc.obls[i].Name < vc.obls[j].Name })
		for _, o := range vc.obls {
			nt++
			if !o.OK {
				nf++
				fmt.Printf("OPEN %-8s %-70s %s | %s\n", o.Result.Status, o.Name, o.Where, trunc(o.Desc, 110))
			}
		}
		if len(vc.unsupported) > 0 {
			fmt.Printf("  (out of reach in %s: %s)\n", vc.key, trunc(strings.Join(vc.unsupported, "; "), 200))
		}
	}
	fmt.Printf("sweep: %d functions, %d safety obligations, %d open\n", len(vcs), nt, nf)
	return 0
}

// sweepParamFacts: non-nil assumptions of the sweep for parameter p with term t.
func sweepParamFact(p *ssa.Parameter, t Term) Term {
	switch under(p.Type()).(type) {
	case *types.Pointer, *types.Map:
		return Not(Eq(t, Null))
	case *types.Interface:
		return Not(Eq(t, Term{"nil_iface", SIface}))
	case *types.Signature:
		return Not(Eq(App(SInt, "fn_id", t), IntLit(0)))
	}
	return True
}
