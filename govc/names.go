package main

// Rebinding of renamed locals. Contracts name locals (loop and callback invariants, ensures-local, call-site
// assertions); a pure rename of such a local would make the contract unresolvable although nothing changed. With the
// hints, the table of named variables of every function under contract is recorded (name, type, ordinal of first
// definition). When a contract identifier is not found, and the recorded table knows it, it is rebound to the one new
// name of the same type at the same ordinal (or to the only new name of that type). The rebinding is reported in the
// evidence notes; if there is no unique candidate the contract is reported stale as before.

import (
	"encoding/json"
	"go/ast"
	"os"
	"path/filepath"
	"regexp"
	"sync"

	"golang.org/x/tools/go/ssa"
)

type nameRec struct {
	Name string `json:"n"`
	Type string `json:"t"`
	Ord  int    `json:"o"`
}

func (vc *FuncVC) nameTable() []nameRec {
	var out []nameRec
	seen := map[string]bool{}
	add := func(n, t string) {
		if n == "" || seen[n] {
			return
		}
		seen[n] = true
		out = append(out, nameRec{n, t, len(out)})
	}
	if vc.fn == nil {
		return nil
	}
	for _, p := range vc.fn.Params {
		add(p.Name(), typeString(p.Type()))
	}
	for _, fv := range vc.fn.FreeVars {
		add(fv.Name(), typeString(derefType(fv.Type())))
	}
	for _, b := range vc.fn.Blocks {
		for _, ins := range b.Instrs {
			switch x := ins.(type) {
			case *ssa.Alloc:
				if x.Comment != "" && x.Comment != "varargs" && x.Comment != "complit" {
					add(x.Comment, typeString(derefType(x.Type())))
				}
			case *ssa.DebugRef:
				if id, ok := x.Expr.(*ast.Ident); ok && x.Object() != nil && id.Pos() == x.Object().Pos() {
					ty := x.X.Type()
					if x.IsAddr {
						ty = derefType(ty)
					}
					add(id.Name, typeString(ty))
				}
			}
		}
	}
	return out
}

func nameTableFile(key string) string {
	return filepath.Join(hintDir(), "names", mangle(key)+".json")
}

func (vc *FuncVC) saveNameTable() {
	t := vc.nameTable()
	if len(t) == 0 {
		return
	}
	os.MkdirAll(filepath.Join(hintDir(), "names"), 0o755)
	b, _ := json.Marshal(t)
	os.WriteFile(nameTableFile(vc.key), append(b, '\n'), 0o644)
}

var reLoopSuffix = regexp.MustCompile(`^(.*)(_L\d+)$`)

// rebindName returns the present name of a local that the recorded table knows under `name`.
func (vc *FuncVC) rebindName(name string) (string, bool) {
	if vc.fn == nil || os.Getenv("GOVC_NOREBIND") != "" {
		return "", false
	}
	suffix := ""
	if m := reLoopSuffix.FindStringSubmatch(name); m != nil {
		name, suffix = m[1], m[2]
	}
	if vc.rebound == nil {
		vc.rebound = map[string]string{}
	}
	if alt, ok := vc.rebound[name]; ok {
		return alt + suffix, alt != ""
	}
	vc.rebound[name] = ""
	var old []nameRec
	b, err := os.ReadFile(nameTableFile(vc.key))
	if err != nil || json.Unmarshal(b, &old) != nil {
		return "", false
	}
	var rec *nameRec
	known := map[string]bool{}
	for i := range old {
		known[old[i].Name] = true
		if old[i].Name == name {
			rec = &old[i]
		}
	}
	if rec == nil {
		return "", false
	}
	var cands []nameRec
	for _, c := range vc.nameTable() {
		if !known[c.Name] && c.Type == rec.Type {
			cands = append(cands, c)
		}
	}
	pick := ""
	for _, c := range cands {
		if c.Ord == rec.Ord {
			pick = c.Name
		}
	}
	if pick == "" && len(cands) == 1 {
		pick = cands[0].Name
	}
	if pick == "" {
		return "", false
	}
	vc.rebound[name] = pick
	vc.note("contract identifier " + name + " no longer exists; rebound to the renamed local " + pick + " (same type, recorded position)")
	return pick + suffix, true
}

var nameTableCache sync.Map

func loadNameTable(key string) []nameRec {
	if v, ok := nameTableCache.Load(key); ok {
		return v.([]nameRec)
	}
	var t []nameRec
	if b, err := os.ReadFile(nameTableFile(key)); err == nil {
		json.Unmarshal(b, &t)
	}
	nameTableCache.Store(key, t)
	return t
}
