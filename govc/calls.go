package main

import (
	"fmt"
	"go/ast"
	"go/constant"
	"go/token"
	"go/types"
	"os"
	"sort"
	"strings"

	"golang.org/x/tools/go/ssa"
)

// calleeContract resolves the key and contract (nil if none) of a call.
func (vc *FuncVC) calleeContract(c *ssa.CallCommon) (string, *Contract) {
	var key string
	switch {
	case c.IsInvoke():
		key = invokeKey(c)
	case c.StaticCallee() != nil:
		key = calleeKey(c.StaticCallee())
	default:
		return "", nil
	}
	if con := vc.S.Contracts[key]; con != nil {
		return key, con
	}
	// wildcard: every method of a type, e.g. log.(Logger).*
	if i := strings.LastIndex(key, ")."); i >= 0 {
		if con := vc.S.Contracts[key[:i+2]+"*"]; con != nil {
			return key, con
		}
	}
	return key, nil
}

func sigOf(c *ssa.CallCommon) *types.Signature {
	if c.IsInvoke() {
		return c.Method.Type().(*types.Signature)
	}
	return c.Signature()
}

func (vc *FuncVC) call(b *ssa.BasicBlock, idx int, ins ssa.Instruction, c *ssa.CallCommon, resV ssa.Value, st *State, defs map[string][]defPoint, reach Term) {
	tc := vc.tc
	pos := ins.Pos()
	if bi, ok := c.Value.(*ssa.Builtin); ok {
		vc.builtin(b, ins, bi, c, resV, st, reach)
		return
	}
	key, con := vc.calleeContract(c)
	sig := sigOf(c)
	// regular expressions: the pattern is read from the SSA constant on every run and translated mechanically
	if key == "regexp.MustCompile" && resV != nil {
		if pat, ok := constString(c.Args[0]); ok {
			if _, err := regexToSMT(pat); err != nil {
				vc.safetyOb("regexp", "regexp.MustCompile pattern is valid and within the translated RE2 subset: "+err.Error(), pos, reach, False)
			}
			r := vc.allocObject(st, "re_"+resV.Name(), reach)
			vc.vals[resV] = r
			vc.assumed["regexp.MustCompile / (*Regexp).MatchString: RE2 semantics of the translated subset (T7)"] = true
			return
		}
	}
	if key == "regexp.(*Regexp).MatchString" && resV != nil {
		if pat, ok := vc.regexOfValue(c.Args[0], 0); ok {
			re, err := regexToSMT(pat)
			if err == nil {
				vc.vals[resV] = vc.define(resV.Name(), App(SBool, "str.in_re", vc.val(c.Args[1]), Term{re, "RegLan"}))
				vc.assumed["regexp.MustCompile / (*Regexp).MatchString: RE2 semantics of the translated subset (T7)"] = true
				return
			}
			vc.note("regex not translated: " + err.Error())
		}
	}
	if vc.con != nil && vc.con.HasOSCalls && (strings.HasPrefix(key, "os.") || strings.HasPrefix(key, "syscall.") || strings.HasPrefix(key, "io/ioutil.")) {
		allowed := false
		for _, a := range vc.con.OSCalls {
			if a == key {
				allowed = true
			}
		}
		if !allowed {
			vc.oblige("assert:"+vc.con.OSCallsLabel+"@os-calls-only", vc.con.OSCallsLabel, "the function calls only the whitelisted operating-system functions; found "+key, pos, reach, False)
		}
	}
	if vc.con != nil && vc.con.HasOSCalls && con == nil {
		if sc := c.StaticCallee(); sc != nil && sc.Pkg != nil && strings.HasPrefix(sc.Pkg.Pkg.Path(), repoModule) {
			// a repository function without a contract: what it does to the file system is unknown
			vc.oblige("assert:"+vc.con.OSCallsLabel+"@os-calls-only", vc.con.OSCallsLabel, "the function calls only the whitelisted operating-system functions; it calls "+key+", which has no contract (its operating-system calls are unknown)", pos, reach, False)
		}
	}
	// type-specialised contracts: key<dynamic type of an interface argument>, e.g. json.Unmarshal<*T>; the
	// argument is then bound to the value inside the interface
	unboxed := map[int]ssa.Value{}
	for i, a := range c.Args {
		if mi, ok := a.(*ssa.MakeInterface); ok {
			tkey := key + "<" + types.TypeString(mi.X.Type(), func(p *types.Package) string { return shortPkg(p.Path()) }) + ">"
			if sc := vc.S.Contracts[tkey]; sc != nil {
				con = sc
				key = tkey
				unboxed[i] = mi.X
				// further interface arguments holding the same static type are unboxed too (reflect.DeepEqual(x, y))
				for j := i + 1; j < len(c.Args); j++ {
					if mj, ok := c.Args[j].(*ssa.MakeInterface); ok && types.Identical(mj.X.Type(), mi.X.Type()) {
						unboxed[j] = mj.X
					}
				}
				break
			}
		}
	}
	// actual arguments: receiver first
	var args []Term
	var argTypes []types.Type
	var argNames []string
	if c.IsInvoke() {
		recv := vc.val(c.Value)
		vc.safetyOb("nil", "method call on nil interface "+c.Value.Name()+"."+c.Method.Name(), pos, reach, Not(Eq(recv, Term{"nil_iface", SIface})))
		args = append(args, recv)
		argTypes = append(argTypes, c.Value.Type())
		argNames = append(argNames, "recv")
	} else if c.StaticCallee() == nil {
		fv := vc.val(c.Value)
		vc.safetyOb("nil", "call of nil function value "+c.Value.Name(), pos, reach, Not(Eq(App(SInt, "fn_id", fv), IntLit(0))))
	}
	for i, a := range c.Args {
		if u, ok := unboxed[i]; ok {
			a = u
		}
		args = append(args, vc.val(a))
		argTypes = append(argTypes, a.Type())
		if isContextType(a.Type()) && con != nil && !con.Extern {
			// the callee (a repository function under contract) assumes its context parameter is not nil
			vc.safetyOb("nilctx", "nil context passed to "+shortCallee(key), pos, reach, Not(Eq(vc.val(a), Term{"nil_iface", SIface})))
		}
	}
	// parameter names
	if sc := c.StaticCallee(); sc != nil && len(sc.Params) == len(c.Args) && !(con != nil && len(con.ParamNames) > 0) {
		for _, p := range sc.Params {
			argNames = append(argNames, p.Name())
		}
	} else if con != nil && len(con.ParamNames) > 0 {
		names := con.ParamNames
		if c.IsInvoke() || (sig.Recv() != nil && len(names) == len(args)-1) {
			argNames = append(argNames[:0], "recv")
			argNames = append(argNames, names...)
		} else {
			argNames = append(argNames[:0], names...)
		}
	} else {
		if sig.Recv() != nil && !c.IsInvoke() {
			argNames = append(argNames, "recv")
		}
		for i := 0; i < sig.Params().Len(); i++ {
			n := sig.Params().At(i).Name()
			if n == "" || n == "_" {
				n = fmt.Sprintf("arg%d", i)
			}
			argNames = append(argNames, n)
		}
	}
	vars := map[string]SVal{}
	for i, a := range args {
		if i < len(argNames) {
			vars[argNames[i]] = SVal{a, argTypes[i]}
		}
		off := 0
		if c.IsInvoke() || (sig.Recv() != nil && c.StaticCallee() != nil) {
			off = 1
		}
		if i >= off {
			vars[fmt.Sprintf("arg%d", i-off)] = SVal{a, argTypes[i]}
		} else {
			vars["recv"] = SVal{a, argTypes[i]}
		}
	}
	// a callee whose parameters were renamed since its contract was written: the recorded table gives the old names
	if sc := c.StaticCallee(); sc != nil && len(sc.Params) == len(args) && os.Getenv("GOVC_NOREBIND") == "" {
		if old := loadNameTable(calleeKey(sc)); len(old) >= len(sc.Params) {
			for i, p := range sc.Params {
				if on := old[i].Name; on != p.Name() && on != "" && old[i].Type == typeString(p.Type()) && !specBuiltins[on] {
					if _, taken := vars[on]; !taken {
						vars[on] = SVal{args[i], argTypes[i]}
					}
				}
			}
		}
	}
	// the callee's own parameter names are always available too (contracts verified from source use them)
	if sc := c.StaticCallee(); sc != nil && len(sc.Params) == len(args) {
		for i, p := range sc.Params {
			if _, ok := vars[p.Name()]; !ok && p.Name() != "" && !specBuiltins[p.Name()] {
				vars[p.Name()] = SVal{args[i], argTypes[i]}
			}
		}
	}
	// call-site assertions of the caller's contract
	siteKey := key
	if siteKey == "" {
		siteKey = "dynamic"
	}
	vc.callSiteN[siteKey]++
	siteNo := vc.callSiteN[siteKey]
	if vc.con != nil {
		for _, ca := range vc.con.CallAsserts {
			if !(ca.Callee == siteKey || strings.HasSuffix(siteKey, "."+ca.Callee) || strings.HasSuffix(siteKey, ca.Callee)) {
				continue
			}
			if ca.Site != 0 && ca.Site != siteNo {
				continue
			}
			if vc.caMatched == nil {
				vc.caMatched = map[*CallAssert]bool{}
			}
			vc.caMatched[ca] = true
			env := &Env{vc: vc, st: st, old: vc.entry, vars: map[string]SVal{}, ctx: ca.Clause.Ctx}
			extra := map[string]SVal{}
			for k, v := range vars {
				if strings.HasPrefix(k, "arg") || k == "recv" {
					extra[k] = v
				}
			}
			env.lookup = vc.resolver(defs, b, idx, st, nil, extra)
			t, err := env.Bool(ca.Clause.Expr)
			if err != nil {
				vc.errorf("%s: at call %s: %v", ca.Clause.Where, ca.Callee, err)
				continue
			}
			if ca.Clause.Assume {
				vc.assume(reach, t)
				vc.assumed["assume at call "+ca.Callee+": "+ca.Clause.Raw] = true
				continue
			}
			lab := ca.Clause.Label
			if lab == "" {
				lab = "assert"
			}
			vc.oblige(fmt.Sprintf("assert:%s@%s", lab, shortCallee(key)), ca.Clause.Label, fmt.Sprintf("at call %s (site %d): %s", key, siteNo, ca.Clause.Raw), pos, reach, t)
			vc.assume(reach, t) // an assertion that has been checked may be used afterwards
		}
	}
	// results
	var rtypes *types.Tuple = sig.Results()
	mkResults := func(st2 *State) []Term {
		var rs []Term
		for i := 0; i < rtypes.Len(); i++ {
			rt := rtypes.At(i).Type()
			r := vc.freshConst(fmt.Sprintf("r_%s_%d", shortCallee(siteKey), i), tc.SortOf(rt))
			vc.assume(reach, vc.typeFacts(r, rt, 0))
			vc.assume(reach, vc.allocFacts(st2, r, rt, 0))
			rs = append(rs, r)
		}
		return rs
	}
	setResults := func(rs []Term) {
		if resV == nil {
			return
		}
		if rtypes.Len() == 1 {
			vc.vals[resV] = rs[0]
		} else if rtypes.Len() > 1 {
			vc.tuples[resV] = rs
		}
	}
	pre := st.clone()
	if con == nil {
		// default contract
		dk := key
		if dk == "" {
			dk = "dynamic call of " + c.Value.Name()
		}
		vc.defaulted[dk] = true
		var mods []modLoc
		for i, a := range args {
			switch under(argTypes[i]).(type) {
			case *types.Pointer:
				mods = append(mods, modLoc{kind: "obj", t: a})
			case *types.Map:
				mods = append(mods, modLoc{kind: "map", t: a})
			case *types.Slice:
				mods = append(mods, modLoc{kind: "obj", t: App(SRef, "sarr", a)})
			}
		}
		if key == "" {
			for _, cell := range vc.closureCells {
				mods = append(mods, modLoc{kind: "obj", t: cell})
			}
		}
		if mc, ok := c.Value.(*ssa.MakeClosure); ok {
			// a closure without a contract may write every variable it captured by reference
			for _, bnd := range mc.Bindings {
				if _, ok := under(bnd.Type()).(*types.Pointer); ok {
					mods = append(mods, modLoc{kind: "obj", t: vc.val(bnd)})
				}
			}
		}
		vc.frameCheckMods(b, pos, mods, dk+" (default contract)")
		vc.havoc(st, mods, true)
		setResults(mkResults(st))
		return
	}
	if con.Extern || con.Trusted {
		vc.assumed[key] = true
	} else if vc.relied != nil {
		// a contract that is itself proved: this function's proof stands on that proof
		vc.relied[con.Key] = true
	}
	if c.IsInvoke() && vc.relied != nil {
		// an assumed contract of an interface method: the repository's own implementations of that interface are what
		// the assumption stands for in the library's normal use, so their (proved) contracts are part of this proof
		for _, ik := range vc.P.implementers(c.Value.Type(), c.Method.Name()) {
			if ic := vc.S.Contracts[ik]; ic != nil && !ic.Extern && !ic.Trusted {
				vc.relied[ik] = true
			}
		}
	}
	argBind := map[string]SVal{}
	for k, v := range vars {
		argBind[k] = v
	}
	calleeEnv := &Env{vc: vc, st: pre, old: pre, vars: vars, ctx: con.Ctx, params: argBind}
	for _, r := range con.Requires {
		calleeEnv.ctx = r.Ctx
		t, err := calleeEnv.Bool(r.Expr)
		if err != nil {
			vc.errorf("%s: requires of %s at call: %v", r.Where, key, err)
			continue
		}
		vc.oblige("pre@"+shortCallee(key), r.Label, fmt.Sprintf("precondition of %s (site %d): %s", key, siteNo, r.Raw), pos, reach, t)
	}
	// iterator with a callback closure: the callback invariant J of the enclosing function's contract is
	// checked here, the captured variables are havocked, and J is assumed afterwards (with cb_err = the last
	// error the closure returned)
	var cbSpec *LoopSpec
	var cbClosure *ssa.MakeClosure
	if con.CallbackParam != "" {
		for i, n := range argNames {
			if n != con.CallbackParam {
				continue
			}
			ai := i
			if c.IsInvoke() {
				ai = i - 1
			}
			if ai >= 0 && ai < len(c.Args) {
				av := c.Args[ai]
				for {
					if ct, ok := av.(*ssa.ChangeType); ok {
						av = ct.X
						continue
					}
					break
				}
				if mc, ok := av.(*ssa.MakeClosure); ok {
					cbClosure = mc
					if vc.relied != nil {
						if cf, ok := mc.Fn.(*ssa.Function); ok {
							vc.relied[FuncKey(cf)] = true // the closure must keep the callback invariant
						}
					}
					if vc.con != nil && vc.con.Callback != nil {
						cbSpec = vc.con.Callback[closureOrdinal(mc.Fn.(*ssa.Function))]
					}
				}
			}
		}
	}
	var cbMods []modLoc
	if cbClosure != nil {
		for bi, bnd := range cbClosure.Bindings {
			if _, ok := under(bnd.Type()).(*types.Pointer); ok {
				// a captured variable the closure only reads keeps its value
				if fnv, ok := cbClosure.Fn.(*ssa.Function); ok && bi < len(fnv.FreeVars) && readOnlyCapture(fnv.FreeVars[bi], 0) {
					continue
				}
				cbMods = append(cbMods, modLoc{kind: "obj", t: vc.val(bnd)})
			}
		}
		// the callback may change any ghost state of the environment; the callback invariant says what is known after
		var gnames []string
		for n, pf := range vc.S.Pure {
			if pf.State {
				gnames = append(gnames, n)
			}
		}
		sort.Strings(gnames)
		touched := map[string]bool{}
		if fnv, ok := cbClosure.Fn.(*ssa.Function); ok {
			vc.ghostStatesModifiedBy(fnv, touched, 0)
		}
		for _, n := range gnames {
			gkey := "GS:" + n
			if !touched[n] && !touched["*"] {
				continue
			}
			if _, ok := vc.comps[gkey]; ok {
				cbMods = append(cbMods, modLoc{kind: "gstate-all", gkey: gkey})
			}
		}
		if cbSpec != nil {
			env := &Env{vc: vc, st: st, old: vc.entry, vars: map[string]SVal{"cb_err": {Term{"nil_iface", SIface}, types.Universe.Lookup("error").Type()}}}
			env.lookup = vc.resolver(defs, b, idx, st, nil, nil)
			for _, inv := range cbSpec.Invariants {
				env.ctx = inv.Ctx
				t, err := env.Bool(inv.Expr)
				if err != nil {
					vc.errorf("%s: callback invariant (before the iterator): %v", inv.Where, err)
					continue
				}
				vc.oblige("cb-inv-entry@"+shortCallee(key), inv.Label, "callback invariant holds before the iterator runs: "+inv.Raw, pos, reach, t)
			}
		} else {
			vc.note("callback closure passed to " + key + " has no callback invariant: captured variables are havocked")
		}
	}
	if !con.Pure || len(cbMods) > 0 {
		mods := vc.evalModifies(con.Modifies, calleeEnv)
		mods = append(mods, cbMods...)
		vc.frameCheckMods(b, pos, mods, key)
		vc.havoc(st, mods, true)
	}
	var cbErr Term
	if cbClosure != nil {
		cbErr = vc.freshConst("cb_err", SIface)
		if cbSpec != nil {
			env := &Env{vc: vc, st: st, old: vc.entry, vars: map[string]SVal{"cb_err": {cbErr, types.Universe.Lookup("error").Type()}}}
			env.lookup = vc.resolver(defs, b, idx+1, st, nil, nil)
			for _, inv := range cbSpec.Invariants {
				env.ctx = inv.Ctx
				t, err := env.Bool(inv.Expr)
				if err != nil {
					continue
				}
				vc.assume(reach, t)
			}
		}
	}
	// results that the contract defines outright (`r == E` with E free of results) become definitions, not
	// fresh constants with an equation: the solvers then see one term instead of two congruent ones
	defined := vc.definedResults(con, vars, rtypes, st, pre)
	rs := mkResults(st)
	for i, d := range defined {
		if d.S != "" && i < len(rs) && d.Sort == rs[i].Sort {
			rs[i] = vc.define(fmt.Sprintf("r_%s_%d", shortCallee(siteKey), i), d)
			vc.assume(reach, vc.typeFacts(rs[i], rtypes.At(i).Type(), 0))
			vc.assume(reach, vc.allocFacts(st, rs[i], rtypes.At(i).Type(), 0))
		}
	}
	setResults(rs)
	postVars := map[string]SVal{}
	for k, v := range vars {
		postVars[k] = v
	}
	// result names: contract header, else signature
	for k, v := range vc.resultVars(rs, rtypes) {
		postVars[k] = v
	}
	for i, n := range con.ResultNames {
		if i < len(rs) {
			postVars[n] = SVal{rs[i], rtypes.At(i).Type()}
		}
	}
	if cbErr.S != "" {
		postVars["cb_err"] = SVal{cbErr, types.Universe.Lookup("error").Type()}
	}
	// an error made by errors.New, or by fmt.Errorf with a constant format without %w, wraps nothing:
	// errors.Is(e, t) holds only for t == e
	if key == "errors.New" && len(rs) == 1 {
		vc.assume(reach, Eq(App(SInt, "ityp", rs[0]), IntLit(errorsNewTypeID)))
	}
	if (key == "fmt.Errorf" || key == "errors.New") && len(rs) == 1 && len(c.Args) > 0 {
		if f, ok := constString(c.Args[0]); ok && (key == "errors.New" || !strings.Contains(f, "%w")) {
			vc.tc.Declare("err_is", "(declare-fun err_is (Iface Iface) Bool)")
			tq := vc.boundVar("t", SIface)
			vc.assume(reach, Forall([]Term{tq}, Eq(App(SBool, "err_is", rs[0], tq), Eq(tq, rs[0])), App(SBool, "err_is", rs[0], tq)))
			// the new error value is not yet stored anywhere (it is distinct from every existing sentinel)
			if _, ok := vc.comps["H:Iface"]; ok {
				pq := vc.boundVar("p", SRef)
				hi := vc.cur(st, "H:Iface")
				vc.assume(reach, Forall([]Term{pq}, Implies(Select(vc.cur(pre, "alloc"), App(SRef, "root", pq), SBool), Not(Eq(Select(hi, pq, SIface), rs[0]))), Select(hi, pq, SIface)))
			}
		}
	}
	postEnv := &Env{vc: vc, st: st, old: pre, vars: postVars, ctx: con.Ctx, params: argBind}
	for _, en := range append(append([]*Clause{}, con.Ensures...), con.GhostEnsures...) {
		postEnv.ctx = en.Ctx
		t, err := postEnv.Bool(en.Expr)
		if err != nil {
			vc.errorf("%s: ensures of %s at call: %v", en.Where, key, err)
			continue
		}
		vc.assume(reach, t)
		if en.Kind == "ensures-ghost" {
			vc.assumed["ghost provenance tag of "+key+" (history predicate, introduced only here): "+en.Raw] = true
		}
	}
}

func shortCallee(key string) string {
	if i := strings.LastIndex(key, "/"); i >= 0 {
		return key[i+1:]
	}
	return key
}

// havoc gives new versions to the components a callee may modify and frames the rest.
func (vc *FuncVC) havoc(st *State, mods []modLoc, allocGrows bool) {
	if allocGrows {
		old := vc.cur(st, "alloc")
		nv := vc.newVersion(st, "alloc")
		r := vc.boundVar("r", SRef)
		vc.emit("(assert %s)", ForallAlt([]Term{r}, Implies(Select(old, r, SBool), Select(nv, r, SBool)), Select(old, r, SBool), Select(nv, r, SBool)).S)
		vc.emit("(assert (not (select %s null)))", nv.S)
	}
	if len(mods) == 0 {
		vc.flushClosed()
		return
	}
	anyMod, objMod := false, false
	addrSorts := map[Sort]bool{}
	var mapMods []modLoc
	// ghost state of the environment
	gmods := map[string][]Term{}
	for _, m := range mods {
		if m.kind == "gstate" {
			gmods[m.gkey] = append(gmods[m.gkey], m.t)
		}
	}
	for _, m := range mods {
		if m.kind == "gstate-all" {
			vc.newVersion(st, m.gkey)
			delete(gmods, m.gkey)
		}
	}
	for gkey, idxs := range gmods {
		c := vc.comps[gkey]
		ks, vs := splitArraySort(c.sort)
		old := vc.cur(st, gkey)
		nv := vc.newVersion(st, gkey)
		k := vc.boundVar("k", ks)
		var ne []Term
		for _, ix := range idxs {
			ne = append(ne, Not(Eq(k, ix)))
		}
		vc.emit("(assert %s)", Forall([]Term{k}, Implies(And(ne...), Eq(Select(nv, k, vs), Select(old, k, vs))), Select(nv, k, vs)).S)
	}
	for _, m := range mods {
		switch m.kind {
		case "any":
			anyMod = true
		case "obj", "tree":
			objMod = true
		case "addr", "fieldsof", "elems":
			addrSorts[m.sort] = true
		case "elems-agg":
			acc := map[Sort]bool{}
			vc.leafSorts(m.sort, acc)
			for ls := range acc {
				addrSorts[ls] = true
			}
		case "map":
			mapMods = append(mapMods, m)
		}
	}
	for _, key := range vc.compOrder {
		switch {
		case strings.HasPrefix(key, "H:"):
			es := Sort(key[2:])
			if !(anyMod || objMod || addrSorts[es]) {
				continue
			}
			old := vc.cur(st, key)
			nv := vc.newVersion(st, key)
			if anyMod {
				continue
			}
			var hm []modLoc
			for _, m := range mods {
				if m.kind == "obj" || m.kind == "tree" || ((m.kind == "addr" || m.kind == "fieldsof" || m.kind == "elems") && m.sort == es) || m.kind == "elems-agg" {
					hm = append(hm, m)
				}
			}
			r := vc.boundVar("r", SRef)
			vc.emit("(assert %s)", Forall([]Term{r}, Implies(Not(vc.modPred(hm, r)), Eq(Select(nv, r, es), Select(old, r, es))), Select(nv, r, es)).S)
		case strings.HasPrefix(key, "MD:") || strings.HasPrefix(key, "MV:"):
			if !(anyMod || len(mapMods) > 0) {
				continue
			}
			_, es := splitArraySort(vc.comps[key].sort)
			old := vc.cur(st, key)
			nv := vc.newVersion(st, key)
			if strings.HasPrefix(key, "MD:") {
				vc.emit("(assert (= (select %s null) (select %s null)))", nv.S, old.S)
			}
			if anyMod {
				continue
			}
			r := vc.boundVar("m", SRef)
			vc.emit("(assert %s)", Forall([]Term{r}, Implies(Not(vc.modPred(mapMods, r)), Eq(Select(nv, r, es), Select(old, r, es))), Select(nv, r, es)).S)
		}
	}
	vc.flushClosed()
}

func (vc *FuncVC) elemLeafHeaps(es Sort) []Sort {
	acc := map[Sort]bool{}
	vc.leafSorts(es, acc)
	var ls []string
	for s := range acc {
		ls = append(ls, string(s))
	}
	sort.Strings(ls)
	var out []Sort
	for _, s := range ls {
		out = append(out, Sort(s))
	}
	return out
}

func (vc *FuncVC) builtin(b *ssa.BasicBlock, ins ssa.Instruction, bi *ssa.Builtin, c *ssa.CallCommon, resV ssa.Value, st *State, reach Term) {
	tc := vc.tc
	pos := ins.Pos()
	set := func(t Term) {
		if resV != nil {
			vc.vals[resV] = t
		}
	}
	switch bi.Name() {
	case "len", "cap":
		v := vc.val(c.Args[0])
		switch t := under(c.Args[0].Type()).(type) {
		case *types.Slice:
			if bi.Name() == "cap" {
				set(vc.define(resV.Name(), App(SInt, "scap", v)))
			} else {
				set(vc.define(resV.Name(), App(SInt, "slen", v)))
			}
		case *types.Map:
			ml := vc.define(resV.Name(), vc.mapLen(st, v, t))
			set(ml)
			vc.assume(reach, And(App(SBool, "<=", IntLit(0), ml), App(SBool, "<=", ml, BigLit("1152921504606846976"))))
		case *types.Basic:
			set(vc.define(resV.Name(), App(SInt, "str.len", v)))
		case *types.Array:
			set(IntLit(t.Len()))
		case *types.Pointer:
			if at, ok := under(t.Elem()).(*types.Array); ok {
				set(IntLit(at.Len()))
			}
		default:
			vc.unsupportedInstr(ins)
			set(vc.freshConst("len", SInt))
		}
	case "append":
		s := vc.val(c.Args[0])
		sl := under(c.Args[0].Type()).(*types.Slice)
		es := tc.SortOf(sl.Elem())
		var t Term
		var m Term
		strSrc := false
		if len(c.Args) < 2 {
			set(s)
			return
		}
		t = vc.val(c.Args[1])
		if t.Sort == SString {
			strSrc = true
			m = App(SInt, "str.len", t)
		} else {
			m = App(SInt, "slen", t)
		}
		n := App(SInt, "slen", s)
		res := vc.freshConst("app_"+resV.Name(), SSlice)
		al := vc.cur(st, "alloc")
		total := App(SInt, "+", n, m)
		arrR := App(SRef, "sarr", res)
		inplace := And(App(SBool, "<=", total, App(SInt, "scap", s)),
			Eq(res, App(SSlice, "mk_slice", App(SRef, "sarr", s), App(SInt, "soff", s), total, App(SInt, "scap", s))))
		fresh := And(App(SBool, ">", total, App(SInt, "scap", s)), Not(Eq(arrR, Null)), Eq(App(SInt, "rkind", arrR), IntLit(0)),
			Eq(App(SRef, "root", arrR), arrR), Not(Select(al, arrR, SBool)), Eq(App(SInt, "soff", res), IntLit(0)),
			Eq(App(SInt, "slen", res), total), App(SBool, ">=", App(SInt, "scap", res), total))
		vc.assume(reach, Or(inplace, fresh))
		vc.assume(reach, vc.sliceWF(res))
		vc.assume(reach, vc.arrayTyped(res, sl))
		vc.setVersion(st, "alloc", Ite(Eq(arrR, Null), al, Store(al, arrR, True)))
		// frame check: in-place append writes the shared backing array (a slice held in a variable the closure
		// captured by reference is the closure's own state: see frameCheckAddr)
		fromFree := false
		if u, ok := c.Args[0].(*ssa.UnOp); ok {
			_, fromFree = u.X.(*ssa.FreeVar)
		}
		if vc.withFrame && !fromFree {
			var goals []Term
			for _, fr := range vc.activeFrames(b) {
				goals = append(goals, Or(App(SBool, ">", total, App(SInt, "scap", s)), Eq(m, IntLit(0)), Not(Select(fr.allocPre, App(SRef, "root", App(SRef, "sarr", s)), SBool)),
					vc.modPred(fr.mods, slElem(s, n))))
			}
			vc.oblige("frame", "", "append to "+c.Args[0].Name()+" does not write a pre-existing backing array in place (or it is listed in modifies)", pos, reach, And(goals...))
		}
		if !strSrc {
			// element heaps
			pre := st.clone()
			for _, ls := range vc.elemLeafHeaps(es) {
				key := vc.heapComp(ls)
				old := vc.cur(pre, key)
				nv := vc.newVersion(st, key)
				r := vc.boundVar("r", SRef)
				// only element cells of the result's backing array may differ (cells of other objects, and field
				// cells that merely share the root object, are untouched)
				er := r
				if vc.tc.StructInfo(es) != nil || isArraySort(es) {
					er = App(SRef, "eroot", r) // aggregate elements: the cell may be a field inside an element
				}
				isElem := And(Eq(App(SInt, "rkind", er), IntLit(2)), Eq(App(SRef, "elem_base", er), arrR))
				vc.emit("(assert %s)", Forall([]Term{r}, Implies(Not(isElem), Eq(Select(nv, r, ls), Select(old, r, ls))), Select(nv, r, ls)).S)
			}
			j := vc.boundVar("j", SInt)
			resElem := slElem(res, j)
			sElem := slElem(s, j)
			tElem := slElem(t, App(SInt, "-", j, n))
			lhs := vc.load(st, resElem, es)
			// old elements are kept: usable from either side (a fact about s[j] says something about res[j] and back)
			vc.emit("(assert %s)", Implies(reach, ForallAlt([]Term{j}, Implies(And(App(SBool, "<=", IntLit(0), j), App(SBool, "<", j, n)), Eq(lhs, vc.load(pre, sElem, es))), resElem, sElem)).S)
			vc.emit("(assert %s)", Implies(reach, Forall([]Term{j}, Implies(And(App(SBool, "<=", n, j), App(SBool, "<", j, total)), Eq(lhs, vc.load(pre, tElem, es))))).S)
			// the instance j = n of the axiom above, stated as a ground fact: `append(s, x)` puts x at index len(s). An
			// existential goal about the result (some element equals ...) has no term that would trigger the axiom.
			vc.emit("(assert %s)", Implies(And(reach, App(SBool, ">=", App(SInt, "slen", t), IntLit(1))),
				Eq(vc.load(st, slElem(res, n), es), vc.load(pre, slElem(t, IntLit(0)), es))).S)
		} else {
			vc.assume(reach, Eq(App(SString, "bytes_str", res), App(SString, "str.++", App(SString, "bytes_str", s), t)))
		}
		if es == SInt && sl.Elem().Underlying() == types.Typ[types.Byte].Underlying() && !strSrc {
			vc.assume(reach, Eq(App(SString, "bytes_str", res), App(SString, "str.++", App(SString, "bytes_str", s), App(SString, "bytes_str", t))))
		}
		set(res)
	case "copy":
		dst := vc.val(c.Args[0])
		src := vc.val(c.Args[1])
		var m Term
		if src.Sort == SString {
			m = App(SInt, "str.len", src)
		} else {
			m = App(SInt, "slen", src)
		}
		nT := Ite(App(SBool, "<=", App(SInt, "slen", dst), m), App(SInt, "slen", dst), m)
		nres := vc.define("copyn", nT)
		sl := under(c.Args[0].Type()).(*types.Slice)
		es := tc.SortOf(sl.Elem())
		if vc.withFrame {
			vc.frameCheckMods(b, pos, []modLoc{{kind: "obj", t: App(SRef, "sarr", dst)}}, "copy")
		}
		pre := st.clone()
		arrD := App(SRef, "sarr", dst)
		for _, ls := range vc.elemLeafHeaps(es) {
			key := vc.heapComp(ls)
			old := vc.cur(pre, key)
			nv := vc.newVersion(st, key)
			r := vc.boundVar("r", SRef)
			vc.emit("(assert %s)", Forall([]Term{r}, Implies(Not(Eq(App(SRef, "root", r), App(SRef, "root", arrD))), Eq(Select(nv, r, ls), Select(old, r, ls))), Select(nv, r, ls)).S)
		}
		if src.Sort == SSlice {
			j := vc.boundVar("j", SInt)
			dElem := slElem(dst, j)
			sElem := slElem(src, j)
			vc.emit("(assert %s)", Implies(reach, Forall([]Term{j}, Implies(And(App(SBool, "<=", IntLit(0), j), App(SBool, "<", j, nres)), Eq(vc.load(st, dElem, es), vc.load(pre, sElem, es))))).S)
		}
		set(nres)
	case "delete":
		m := vc.val(c.Args[0])
		mt := under(c.Args[0].Type()).(*types.Map)
		if vc.withFrame {
			vc.frameCheckMods(b, pos, []modLoc{{kind: "map", t: m}}, "delete")
		}
		vc.mapDelete(st, m, vc.coerceVal(vc.val(c.Args[1]), tc.SortOf(mt.Key())), mt)
	case "panic":
		vc.safetyOb("panic", "explicit panic is unreachable", pos, reach, False)
	case "print", "println":
	case "min", "max":
		a, bb := vc.val(c.Args[0]), vc.val(c.Args[1])
		op := "<="
		if bi.Name() == "max" {
			op = ">="
		}
		set(vc.define(resV.Name(), Ite(App(SBool, op, a, bb), a, bb)))
	case "ssa:wrapnilchk":
		v := vc.val(c.Args[0])
		vc.safetyOb("nil", "nil receiver in method wrapper", pos, reach, Not(Eq(v, Null)))
		set(v)
	case "new":
		vc.unsupportedInstr(ins)
		set(vc.freshConst("new", SRef))
	default:
		vc.unsupportedInstr(ins)
		if resV != nil {
			set(vc.freshConst("builtin", tc.SortOf(resV.Type())))
		}
	}
	_ = token.NoPos
}

func constString(v ssa.Value) (string, bool) {
	c, ok := v.(*ssa.Const)
	if !ok || c.Value == nil || c.Value.Kind() != constant.String {
		return "", false
	}
	return constant.StringVal(c.Value), true
}

// regexOfValue traces a *regexp.Regexp value to the constant pattern it was compiled from:
// a MustCompile call in the same function, or a package-level variable initialised by one in init.
func (vc *FuncVC) regexOfValue(v ssa.Value, depth int) (string, bool) {
	if depth > 4 {
		return "", false
	}
	switch x := v.(type) {
	case *ssa.Call:
		if sc := x.Call.StaticCallee(); sc != nil && calleeKey(sc) == "regexp.MustCompile" {
			return constString(x.Call.Args[0])
		}
	case *ssa.UnOp:
		if g, ok := x.X.(*ssa.Global); ok && x.Op == token.MUL {
			initFn := g.Pkg.Func("init")
			if initFn == nil {
				return "", false
			}
			var found string
			n := 0
			for _, b := range initFn.Blocks {
				for _, ins := range b.Instrs {
					if st, ok := ins.(*ssa.Store); ok && st.Addr == g {
						if p, ok := vc.regexOfValue(st.Val, depth+1); ok {
							found = p
						}
						n++
					}
				}
			}
			// the variable must not be assigned anywhere else in its package
			for _, m := range g.Pkg.Members {
				if f, ok := m.(*ssa.Function); ok && f != initFn {
					for _, b := range f.Blocks {
						for _, ins := range b.Instrs {
							if st, ok := ins.(*ssa.Store); ok && st.Addr == g {
								n++
							}
						}
					}
				}
			}
			if n == 1 && found != "" {
				return found, true
			}
		}
	}
	return "", false
}

func conjuncts(e ast.Expr, out []ast.Expr) []ast.Expr {
	switch x := e.(type) {
	case *ast.ParenExpr:
		return conjuncts(x.X, out)
	case *ast.BinaryExpr:
		if x.Op == token.LAND {
			return conjuncts(x.Y, conjuncts(x.X, out))
		}
	}
	return append(out, e)
}

// definedResults finds, per result, a defining equation `name == E` among the top-level conjuncts of the
// callee's ensures clauses, where E can be evaluated without any result variable.
func (vc *FuncVC) definedResults(con *Contract, vars map[string]SVal, rtypes *types.Tuple, st, pre *State) []Term {
	out := make([]Term, rtypes.Len())
	names := map[string]int{}
	for i := 0; i < rtypes.Len(); i++ {
		names[fmt.Sprintf("result%d", i)] = i
		if i == 0 {
			names["result"] = 0
		}
		if n := rtypes.At(i).Name(); n != "" && n != "_" {
			names[n] = i
		}
	}
	for i, n := range con.ResultNames {
		if i < rtypes.Len() {
			names[n] = i
		}
	}
	for _, en := range con.Ensures {
		for _, cj := range conjuncts(en.Expr, nil) {
			be, ok := cj.(*ast.BinaryExpr)
			if !ok || be.Op != token.EQL {
				continue
			}
			for _, pair := range [][2]ast.Expr{{be.X, be.Y}, {be.Y, be.X}} {
				id, ok := pair[0].(*ast.Ident)
				if !ok {
					continue
				}
				idx, isRes := names[id.Name]
				if !isRes || out[idx].S != "" {
					continue
				}
				if _, shadow := vars[id.Name]; shadow {
					continue
				}
				mentions := false
				ast.Inspect(pair[1], func(n ast.Node) bool {
					if x, ok := n.(*ast.Ident); ok {
						if _, r := names[x.Name]; r {
							if _, sh := vars[x.Name]; !sh {
								mentions = true
							}
						}
					}
					return true
				})
				if mentions {
					continue
				}
				env := &Env{vc: vc, st: st, old: pre, vars: vars, ctx: en.Ctx}
				saveErrs := len(vc.errs)
				v, err := env.Eval(pair[1])
				vc.errs = vc.errs[:saveErrs]
				if err != nil || v.T.Sort == "Nil" {
					continue
				}
				out[idx] = v.T
			}
		}
	}
	return out
}

func closureOrdinal(fn *ssa.Function) int {
	name := fn.Name()
	if i := strings.LastIndex(name, "$"); i >= 0 {
		n := 0
		fmt.Sscanf(name[i+1:], "%d", &n)
		return n
	}
	return 0
}

// names of spec-language builtins: a callee parameter of the same name must not shadow them
var specBuiltins = map[string]bool{"substr": true, "contains": true, "hasprefix": true, "hassuffix": true, "len": true, "cap": true,
	"old": true, "forall": true, "exists": true, "forallkeys": true, "has": true, "fresh": true, "ite": true, "box": true,
	"zero": true, "max": true, "min": true, "in_re": true, "typeis": true, "param": true, "result": true, "string": true}

// readOnlyCapture: every use of the captured variable's address inside the closure (and the closures it makes) is a
// load, possibly through field / index selection; the address is never stored to, passed on or compared.
func readOnlyCapture(v ssa.Value, depth int) bool {
	if depth > 6 {
		return false
	}
	refs := v.Referrers()
	if refs == nil {
		return false
	}
	for _, r := range *refs {
		switch x := r.(type) {
		case *ssa.DebugRef:
		case *ssa.UnOp:
			if x.Op != token.MUL {
				return false
			}
		case *ssa.FieldAddr:
			if !readOnlyCapture(x, depth+1) {
				return false
			}
		case *ssa.IndexAddr:
			if !readOnlyCapture(x, depth+1) {
				return false
			}
		case *ssa.MakeClosure:
			fnv, ok := x.Fn.(*ssa.Function)
			if !ok {
				return false
			}
			for i, b := range x.Bindings {
				if b == v {
					if i >= len(fnv.FreeVars) || !readOnlyCapture(fnv.FreeVars[i], depth+1) {
						return false
					}
				}
			}
		default:
			return false
		}
	}
	return true
}

// ghostStatesModifiedBy collects the ghost states named in the modifies clauses of the contracts of everything fn (and
// the closures it makes) calls; "*" when a callee without a contract could modify any.
func (vc *FuncVC) ghostStatesModifiedBy(fn *ssa.Function, out map[string]bool, depth int) {
	if depth > 4 {
		out["*"] = true
		return
	}
	for _, b := range fn.Blocks {
		for _, ins := range b.Instrs {
			if mc, ok := ins.(*ssa.MakeClosure); ok {
				if f2, ok := mc.Fn.(*ssa.Function); ok {
					vc.ghostStatesModifiedBy(f2, out, depth+1)
				}
			}
			ci, ok := ins.(ssa.CallInstruction)
			if !ok {
				continue
			}
			c := ci.Common()
			if _, isB := c.Value.(*ssa.Builtin); isB {
				continue
			}
			_, con := vc.calleeContract(c)
			if con == nil {
				// contract-less callees get the default contract, which leaves ghost state alone
				continue
			}
			for _, m := range con.Modifies {
				for _, mx := range m.Exprs {
					ast.Inspect(mx, func(n ast.Node) bool {
						if call, ok := n.(*ast.CallExpr); ok {
							if id, ok := call.Fun.(*ast.Ident); ok {
								if pf := vc.S.Pure[id.Name]; pf != nil && pf.State {
									out[id.Name] = true
								}
								if id.Name == "gstate" {
									out["*"] = true
								}
							}
						}
						return true
					})
				}
			}
		}
	}
}
