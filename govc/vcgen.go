package main

import (
	"fmt"
	"go/ast"
	"go/constant"
	"go/token"
	"go/types"
	"strings"
	"sync"

	"golang.org/x/tools/go/ssa"
)

// State maps heap / ghost components to their current SMT version symbol.
type State struct{ ver map[string]string }

func (s *State) clone() *State {
	n := &State{ver: make(map[string]string, len(s.ver))}
	for k, v := range s.ver {
		n.ver[k] = v
	}
	return n
}

type compInfo struct {
	key  string
	sort Sort
	base string
	n    int
}

// Obligation is one proof goal: decls[:Cut] /\ Guard /\ not Goal must be unsat.
type Obligation struct {
	Name        string
	Kind        string
	Label       string
	Func        string
	Where       string
	Desc        string
	Guard       Term
	Goal        Term
	Cut         int
	Block       int  // block the obligation belongs to (-1: none): only declarations of its ancestors are included
	Cover       bool // cover query: expected NOT unsat
	Result      SolverResult
	OK          bool
	Hinted      bool
	FullStatus  string // thorough tier: answer to the full query of a hint-discharged obligation
	FullSeconds float64
	LocalPost   bool // from an ensures-local clause: never assumed by callers
}

type modLoc struct {
	kind string // obj | addr | tree | map | any | fieldsof
	t    Term
	sort Sort // for addr: sort of stored value
	idx  int
	gkey string // ghost state component
	// fieldsof condition
	condVar string
	condTy  types.Type
	cond    ast.Expr
	env     *Env
}

type frame struct {
	name     string
	allocPre Term
	mods     []modLoc
}

type loopInfo struct {
	head    *ssa.BasicBlock
	ordinal int
	body    map[*ssa.BasicBlock]bool
	backs   []*ssa.BasicBlock
	entries []*ssa.BasicBlock
	rng     *ssa.Range // map range feeding a Next in head
	spec    *LoopSpec
	fr      *frame
	pre     *State
	headSt  *State
	decr0   Term
}

type FuncVC struct {
	P   *Program
	S   *Specs
	fn  *ssa.Function
	con *Contract
	tc  *TypeCtx
	key string

	comps     map[string]*compInfo
	compOrder []string
	known     []compInfo // from dry pass
	dry       bool

	decls  []string
	vals   map[ssa.Value]Term
	tuples map[ssa.Value][]Term
	reach  map[*ssa.BasicBlock]Term
	out    map[*ssa.BasicBlock]*State
	entry  *State
	obls   []*Obligation
	kindN  map[string]int

	loops   []*loopInfo
	loopAt  map[*ssa.BasicBlock]*loopInfo
	frames  []*frame // function frame
	fresh   int
	globals map[string]Term
	funcIDs map[string]int

	assumed       map[string]bool // assumed contracts used (keys)
	defaulted     map[string]bool // callees handled by the default contract
	relied        map[string]bool // callees whose (proved) contract was used
	unsupported   []string
	notes         []string
	callSiteN     map[string]int
	defers        []*ssa.Defer
	retN          int
	closureCells  []Term
	errs          []string
	withFrame     bool
	isInit        bool
	emitted       map[string]int
	dryGlobals    map[string]bool
	pendingClosed []pendingClosed
	usedInvPkgs   map[string]bool
	declBlock     []int // block index that emitted each decl (-1: entry / global)
	curB          int
	ancCache      map[int]map[int]bool
	ancMu         sync.Mutex
	safety        bool
	sweepNonNil   bool
	caMatched     map[*CallAssert]bool
	rebound       map[string]string
	entryFacts    []Term
}

func NewFuncVC(P *Program, S *Specs, fn *ssa.Function, con *Contract) *FuncVC {
	return &FuncVC{P: P, S: S, fn: fn, con: con, key: FuncKey(fn)}
}

func (vc *FuncVC) reset(dry bool) {
	if vc.tc == nil {
		vc.tc = NewTypeCtx()
	}
	vc.comps = map[string]*compInfo{}
	vc.compOrder = nil
	vc.dry = dry
	vc.decls = nil
	vc.declBlock = nil
	vc.curB = -1
	vc.ancCache = nil
	vc.vals = map[ssa.Value]Term{}
	vc.tuples = map[ssa.Value][]Term{}
	vc.reach = map[*ssa.BasicBlock]Term{}
	vc.out = map[*ssa.BasicBlock]*State{}
	vc.obls = nil
	vc.kindN = map[string]int{}
	vc.loops = nil
	vc.loopAt = map[*ssa.BasicBlock]*loopInfo{}
	vc.frames = nil
	vc.fresh = 0
	vc.globals = map[string]Term{}
	vc.funcIDs = map[string]int{}
	vc.assumed = map[string]bool{}
	vc.defaulted = map[string]bool{}
	vc.relied = map[string]bool{}
	vc.unsupported = nil
	vc.notes = nil
	vc.callSiteN = map[string]int{}
	vc.defers = nil
	vc.retN = 0
	vc.closureCells = nil
	vc.errs = nil
	vc.entryFacts = nil
	vc.emitted = nil
}

func (vc *FuncVC) emit(f string, a ...any) {
	if len(a) == 0 {
		vc.decls = append(vc.decls, f)
	} else {
		vc.decls = append(vc.decls, fmt.Sprintf(f, a...))
	}
	vc.declBlock = append(vc.declBlock, vc.curB)
}

func (vc *FuncVC) assume(guard, fact Term) {
	if fact.S == "true" {
		return
	}
	line := "(assert " + Implies(guard, fact).S + ")"
	if vc.emitted == nil {
		vc.emitted = map[string]int{}
	}
	if i, dup := vc.emitted[line]; dup {
		// the same (self-guarded) fact asked for from another block: keep it for every obligation
		if i < len(vc.declBlock) && vc.declBlock[i] != vc.curB {
			vc.declBlock[i] = -1
		}
		return
	}
	vc.emitted[line] = len(vc.decls)
	vc.emit(line)
}

func (vc *FuncVC) errorf(f string, a ...any) {
	vc.errs = append(vc.errs, fmt.Sprintf(f, a...))
}

func (vc *FuncVC) freshName(hint string) string {
	vc.fresh++
	return fmt.Sprintf("%s_%d", mangle(hint), vc.fresh)
}

func (vc *FuncVC) freshConst(hint string, s Sort) Term {
	n := vc.freshName(hint)
	vc.emit("(declare-const %s %s)", n, s)
	return Term{n, s}
}

func (vc *FuncVC) define(hint string, t Term) Term {
	n := vc.freshName(hint)
	vc.emit("(define-fun %s () %s %s)", n, t.Sort, t.S)
	return Term{n, t.Sort}
}

func (vc *FuncVC) boundVar(name string, s Sort) Term {
	vc.fresh++
	return Term{fmt.Sprintf("q_%s_%d", mangle(name), vc.fresh), s}
}

// ---------------------------------------------------------------------------------------------
// components

func (vc *FuncVC) compSort(key string) Sort {
	switch {
	case key == "alloc":
		return ArraySort(SRef, SBool)
	case strings.HasPrefix(key, "H:"):
		return ArraySort(SRef, Sort(key[2:]))
	}
	if c := vc.comps[key]; c != nil {
		return c.sort
	}
	panic("unknown comp sort " + key)
}

func (vc *FuncVC) ensureComp(key string, sort Sort) *compInfo {
	if c := vc.comps[key]; c != nil {
		return c
	}
	c := &compInfo{key: key, sort: sort, base: "c_" + mangle(key)}
	vc.comps[key] = c
	vc.compOrder = append(vc.compOrder, key)
	vc.emit("(declare-const %s_v0 %s)", c.base, sort)
	if strings.HasPrefix(key, "MD:") {
		// nil map has an empty domain
		ks, _ := splitArraySort(Sort(strings.TrimSuffix(strings.TrimPrefix(string(sort), "(Array Ref "), ")")))
		vc.emit("(assert (= (select %s_v0 null) ((as const (Array %s Bool)) false)))", c.base, ks)
	}
	return c
}

func (vc *FuncVC) heapComp(s Sort) string {
	key := "H:" + string(s)
	vc.ensureComp(key, ArraySort(SRef, s))
	return key
}

func (vc *FuncVC) cur(st *State, key string) Term {
	c := vc.comps[key]
	if c == nil {
		if key == "alloc" {
			c = vc.ensureComp("alloc", ArraySort(SRef, SBool))
		} else {
			panic("comp not registered: " + key)
		}
	}
	if v, ok := st.ver[key]; ok {
		return Term{v, c.sort}
	}
	return Term{c.base + "_v0", c.sort}
}

func (vc *FuncVC) newVersion(st *State, key string) Term {
	c := vc.comps[key]
	c.n++
	name := fmt.Sprintf("%s_v%d", c.base, c.n)
	vc.emit("(declare-const %s %s)", name, c.sort)
	st.ver[key] = name
	if key == "H:Ref" || key == "H:Slice" {
		vc.pendingClosed = append(vc.pendingClosed, pendingClosed{st, key})
	}
	return Term{name, c.sort}
}

type pendingClosed struct {
	st  *State
	key string
}

// flushClosed states heap closedness for freshly havocked reference heaps: a reference stored in an
// allocated object points to an allocated object (or is nil). It must be called once the state's alloc
// version is final for the havoc in progress.
func (vc *FuncVC) flushClosed() {
	for _, p := range vc.pendingClosed {
		vc.closedAxiom(p.st, p.key)
	}
	vc.pendingClosed = nil
}

func (vc *FuncVC) closedAxiom(st *State, key string) {
	if _, ok := vc.comps[key]; !ok {
		return
	}
	al := vc.cur(st, "alloc")
	h := vc.cur(st, key)
	r := vc.boundVar("r", SRef)
	var tgt Term
	var sel Term
	if key == "H:Ref" {
		sel = Select(h, r, SRef)
		tgt = sel
	} else {
		sel = Select(h, r, SSlice)
		tgt = App(SRef, "sarr", sel)
	}
	body := Implies(Select(al, App(SRef, "root", r), SBool), Or(Eq(tgt, Null), Select(al, App(SRef, "root", tgt), SBool)))
	if key == "H:Slice" {
		// every slice header stored in allocated memory is well formed (0 <= len <= cap, nil array => cap 0, ...)
		body = And(body, Implies(Select(al, App(SRef, "root", r), SBool), vc.sliceWF(sel)))
	}
	vc.emit("(assert %s)", Forall([]Term{r}, body, sel).S)
}

func (vc *FuncVC) setVersion(st *State, key string, t Term) {
	c := vc.comps[key]
	c.n++
	name := fmt.Sprintf("%s_v%d", c.base, c.n)
	if strings.HasPrefix(t.S, "(ite ") {
		// an if-then-else version must be a constant, not a macro: macros are expanded inside quantifier
		// patterns, where `ite` is not allowed
		vc.emit("(declare-const %s %s)", name, c.sort)
		vc.emit("(assert (= %s %s))", name, t.S)
	} else {
		vc.emit("(define-fun %s () %s %s)", name, c.sort, t.S)
	}
	st.ver[key] = name
}

// ---------------------------------------------------------------------------------------------
// memory model

func (vc *FuncVC) fldAddr(base Term, idx int) Term { return App(SRef, "fld", base, IntLit(int64(idx))) }
func (vc *FuncVC) elemAddr(base, idx Term) Term    { return App(SRef, "elem", base, idx) }

func isArraySort(s Sort) bool { return strings.HasPrefix(string(s), "(Array ") }

func (vc *FuncVC) load(st *State, addr Term, s Sort) Term {
	if info := vc.tc.StructInfo(s); info != nil {
		var fs []Term
		for i, f := range info.fields {
			fs = append(fs, vc.load(st, vc.fldAddr(addr, i), f))
		}
		return vc.tc.MkStruct(s, fs)
	}
	if isArraySort(s) {
		// Go array value in memory: abstracted by an uninterpreted read of the element heap
		_, es := splitArraySort(s)
		if vc.tc.StructInfo(es) == nil && !isArraySort(es) {
			key := vc.heapComp(es)
			return App(s, vc.arrloadFn(es), vc.cur(st, key), addr)
		}
		return vc.freshConst("arrval", s)
	}
	key := vc.heapComp(s)
	return Select(vc.cur(st, key), addr, s)
}

func (vc *FuncVC) store(st *State, addr Term, v Term) {
	s := v.Sort
	if info := vc.tc.StructInfo(s); info != nil {
		for i := range info.fields {
			vc.store(st, vc.fldAddr(addr, i), vc.tc.FieldSel(v, i))
		}
		return
	}
	if isArraySort(s) {
		_, es := splitArraySort(s)
		if vc.tc.StructInfo(es) == nil && !isArraySort(es) {
			key := vc.heapComp(es)
			old := vc.cur(st, key)
			nw := vc.newVersion(st, key)
			r := vc.boundVar("r", SRef)
			i := vc.boundVar("i", SInt)
			vc.emit("(assert %s)", Forall([]Term{r}, Implies(Not(And(Eq(App(SInt, "rkind", r), IntLit(2)), Eq(App(SRef, "elem_base", r), addr))), Eq(Select(nw, r, es), Select(old, r, es))), Select(nw, r, es)).S)
			vc.emit("(assert %s)", Forall([]Term{i}, Eq(Select(nw, vc.elemAddr(addr, i), es), Select(v, i, es)), Select(nw, vc.elemAddr(addr, i), es)).S)
			// the array now held at addr IS v (pointwise equal for every index, stated once as an equation)
			vc.emit("(assert (= %s %s))", App(s, vc.arrloadFn(es), nw, addr).S, v.S)
			return
		}
		vc.note("store of array-of-aggregate value abstracted")
		return
	}
	key := vc.heapComp(s)
	vc.setVersion(st, key, Store(vc.cur(st, key), addr, v))
}

func (vc *FuncVC) note(s string) {
	for _, n := range vc.notes {
		if n == s {
			return
		}
	}
	vc.notes = append(vc.notes, s)
}

// leafSorts lists the leaf heap sorts a value of sort s occupies in memory.
func (vc *FuncVC) leafSorts(s Sort, acc map[Sort]bool) {
	if info := vc.tc.StructInfo(s); info != nil {
		for _, f := range info.fields {
			vc.leafSorts(f, acc)
		}
		return
	}
	if isArraySort(s) {
		_, es := splitArraySort(s)
		vc.leafSorts(es, acc)
		return
	}
	acc[s] = true
}

func mapSorts(tc *TypeCtx, mt *types.Map) (Sort, Sort) {
	return tc.SortOf(mt.Key()), tc.SortOf(mt.Elem())
}

func (vc *FuncVC) mapComps(mt *types.Map) (string, string, Sort, Sort) {
	ks, vs := mapSorts(vc.tc, mt)
	dk := "MD:" + string(ks)
	vk := "MV:" + string(ks) + ":" + string(vs)
	vc.ensureComp(dk, ArraySort(SRef, ArraySort(ks, SBool)))
	vc.ensureComp(vk, ArraySort(SRef, ArraySort(ks, vs)))
	return dk, vk, ks, vs
}

func (vc *FuncVC) mapHas(st *State, m, k Term, mt *types.Map) Term {
	dk, _, ks, _ := vc.mapComps(mt)
	return Select(Select(vc.cur(st, dk), m, ArraySort(ks, SBool)), k, SBool)
}

func (vc *FuncVC) mapLookup(st *State, m, k Term, mt *types.Map) Term {
	_, vk, ks, vs := vc.mapComps(mt)
	has := vc.mapHas(st, m, k, mt)
	return Ite(has, Select(Select(vc.cur(st, vk), m, ArraySort(ks, vs)), k, vs), vc.tc.Zero(vs))
}

func (vc *FuncVC) cardFn(ks Sort) string {
	fn := "card_" + mangle(string(ks))
	ds := ArraySort(ks, SBool)
	vc.tc.Declare(fn, fmt.Sprintf("(declare-fun %s (%s) Int)\n(assert (forall ((d %s)) (! (>= (%s d) 0) :pattern ((%s d)))))\n(assert (= (%s ((as const %s) false)) 0))\n(assert (forall ((d %s) (k %s)) (! (=> (select d k) (> (%s d) 0)) :pattern ((select d k) (%s d)))))",
		fn, ds, ds, fn, fn, fn, ds, ds, ks, fn, fn))
	return fn
}

func (vc *FuncVC) mapLen(st *State, m Term, mt *types.Map) Term {
	dk, _, ks, _ := vc.mapComps(mt)
	return App(SInt, vc.cardFn(ks), Select(vc.cur(st, dk), m, ArraySort(ks, SBool)))
}

func (vc *FuncVC) mapUpdate(st *State, m, k, v Term, mt *types.Map) {
	dk, vk, ks, vs := vc.mapComps(mt)
	ds := ArraySort(ks, SBool)
	oldD := vc.cur(st, dk)
	oldDom := Select(oldD, m, ds)
	vc.setVersion(st, dk, Store(oldD, m, Store(oldDom, k, True)))
	oldV := vc.cur(st, vk)
	vc.setVersion(st, vk, Store(oldV, m, Store(Select(oldV, m, ArraySort(ks, vs)), k, v)))
	card := vc.cardFn(ks)
	newDom := Select(vc.cur(st, dk), m, ds)
	vc.emit("(assert (= (%s %s) (+ (%s %s) (ite %s 0 1))))", card, newDom.S, card, oldDom.S, Select(oldDom, k, SBool).S)
}

func (vc *FuncVC) mapDelete(st *State, m, k Term, mt *types.Map) {
	dk, _, ks, _ := vc.mapComps(mt)
	ds := ArraySort(ks, SBool)
	oldD := vc.cur(st, dk)
	oldDom := Select(oldD, m, ds)
	// delete on a nil map is a no-op (the nil map keeps its empty domain)
	vc.setVersion(st, dk, Ite(Eq(m, Null), oldD, Store(oldD, m, Store(oldDom, k, False))))
	card := vc.cardFn(ks)
	newDom := Select(vc.cur(st, dk), m, ds)
	vc.emit("(assert (= (%s %s) (- (%s %s) (ite %s 1 0))))", card, newDom.S, card, oldDom.S, Select(oldDom, k, SBool).S)
}

// ---------------------------------------------------------------------------------------------
// type facts

func intBounds(b *types.Basic) (string, string, bool) {
	switch b.Kind() {
	case types.Int, types.Int64:
		return "-9223372036854775808", "9223372036854775807", true
	case types.Int32:
		return "-2147483648", "2147483647", true
	case types.Int16:
		return "-32768", "32767", true
	case types.Int8:
		return "-128", "127", true
	case types.Uint, types.Uint64, types.Uintptr:
		return "0", "18446744073709551615", true
	case types.Uint32:
		return "0", "4294967295", true
	case types.Uint16:
		return "0", "65535", true
	case types.Uint8:
		return "0", "255", true
	}
	return "", "", false
}

func (vc *FuncVC) typeFacts(t Term, ty types.Type, depth int) Term {
	if ty == nil {
		return True
	}
	switch u := under(ty).(type) {
	case *types.Basic:
		if lo, hi, ok := intBounds(u); ok && t.Sort == SInt {
			return And(App(SBool, "<=", BigLit(lo), t), App(SBool, "<=", t, BigLit(hi)))
		}
	case *types.Pointer:
		return vc.pointerTyped(t, u)
	case *types.Slice:
		return And(vc.sliceWF(t), vc.arrayTyped(t, u))
	case *types.Struct:
		if depth >= 2 || vc.tc.StructInfo(t.Sort) == nil {
			return True
		}
		var fs []Term
		for i := 0; i < u.NumFields(); i++ {
			fs = append(fs, vc.typeFacts(vc.tc.FieldSel(t, i), u.Field(i).Type(), depth+1))
		}
		return And(fs...)
	}
	return True
}

func (vc *FuncVC) sliceWF(t Term) Term {
	return And(App(SBool, "<=", IntLit(0), App(SInt, "soff", t)), App(SBool, "<=", IntLit(0), App(SInt, "slen", t)),
		App(SBool, "<=", App(SInt, "slen", t), App(SInt, "scap", t)),
		App(SBool, "<=", App(SInt, "scap", t), BigLit("4611686018427387904")),
		Implies(Eq(App(SRef, "sarr", t), Null), Eq(App(SInt, "scap", t), IntLit(0))),
		Eq(App(SInt, "rkind", App(SRef, "sarr", t)), IntLit(0)),
		Eq(App(SRef, "root", App(SRef, "sarr", t)), App(SRef, "sarr", t)),
		// a backing array is never the cell of a scalar variable (typed disjointness, see DESIGN T1)
		Not(App(SBool, "iscell", App(SRef, "root", App(SRef, "sarr", t)))))
}

// allocFacts: every reference reachable in one step from the value is allocated (or nil).
func (vc *FuncVC) allocFacts(st *State, t Term, ty types.Type, depth int) Term {
	if ty == nil {
		return True
	}
	al := vc.cur(st, "alloc")
	isAlloc := func(r Term) Term {
		return Or(Eq(r, Null), Select(al, App(SRef, "root", r), SBool))
	}
	switch u := under(ty).(type) {
	case *types.Pointer, *types.Map, *types.Chan:
		return isAlloc(t)
	case *types.Slice:
		return isAlloc(App(SRef, "sarr", t))
	case *types.Struct:
		if depth >= 2 || vc.tc.StructInfo(t.Sort) == nil {
			return True
		}
		var fs []Term
		for i := 0; i < u.NumFields(); i++ {
			fs = append(fs, vc.allocFacts(st, vc.tc.FieldSel(t, i), u.Field(i).Type(), depth+1))
		}
		return And(fs...)
	}
	return True
}

// ---------------------------------------------------------------------------------------------
// values

func (vc *FuncVC) constTerm(v constant.Value, ty types.Type) Term {
	s := vc.tc.SortOf(ty)
	if v == nil {
		return vc.tc.Zero(s)
	}
	switch v.Kind() {
	case constant.Bool:
		if constant.BoolVal(v) {
			return True
		}
		return False
	case constant.String:
		return StrLit(constant.StringVal(v))
	case constant.Int:
		if s == SReal {
			return Term{v.ExactString() + ".0", SReal}
		}
		return BigLit(v.ExactString())
	case constant.Float:
		f, _ := constant.Float64Val(v)
		return Term{fmt.Sprintf("%f", f), SReal}
	}
	return vc.tc.Zero(s)
}

func (vc *FuncVC) globalRef(v *types.Var) Term {
	return vc.globalRefNamed(v.Pkg().Path() + "." + v.Name())
}

func (vc *FuncVC) globalRefNamed(full string) Term {
	name := "g_" + mangle(full)
	if t, ok := vc.globals[name]; ok {
		return t
	}
	id := len(vc.globals) + 1
	// facts about a package-level variable hold everywhere: never sliced by block
	saveB := vc.curB
	vc.curB = -1
	defer func() { vc.curB = saveB }()
	vc.emit("(declare-const %s Ref)", name)
	vc.tc.Declare("gid", "(declare-fun gid (Ref) Int)")
	vc.emit("(assert (and (= (gid %s) %d) (= (rkind %s) 0) (= (root %s) %s) (not (= %s null)) (select %s %s)))",
		name, id, name, name, name, name, vc.cur(vc.entry, "alloc").S, name)
	t := Term{name, SRef}
	vc.globals[name] = t
	return t
}

func (vc *FuncVC) funcValue(key string) Term {
	id, ok := vc.funcIDs[key]
	if !ok {
		id = len(vc.funcIDs) + 1
		vc.funcIDs[key] = id
	}
	return App(SFn, "mk_fn", IntLit(int64(id)), Null)
}

func (vc *FuncVC) val(v ssa.Value) Term {
	if t, ok := vc.vals[v]; ok {
		return t
	}
	switch x := v.(type) {
	case *ssa.Const:
		return vc.constTerm(x.Value, x.Type())
	case *ssa.Global:
		return vc.globalRefNamed(x.Pkg.Pkg.Path() + "." + x.Name())
	case *ssa.Function:
		return vc.funcValue(FuncKey(x))
	case *ssa.Builtin:
		return Term{"builtin", SFn}
	}
	vc.errorf("value %s (%T) used before definition", v.Name(), v)
	return vc.tc.Zero(vc.tc.SortOf(v.Type()))
}

// ---------------------------------------------------------------------------------------------
// obligations

func (vc *FuncVC) oblige(kind, label, desc string, pos token.Pos, guard, goal Term) *Obligation {
	vc.kindN[kind]++
	name := fmt.Sprintf("%s/%s#%d", vc.key, kind, vc.kindN[kind])
	o := &Obligation{Name: name, Kind: kind, Label: label, Func: vc.key, Where: vc.P.Pos(pos), Desc: desc,
		Guard: guard, Goal: goal, Cut: len(vc.decls), Block: vc.curB}
	if goal.S == "true" {
		return nil
	}
	vc.obls = append(vc.obls, o)
	return o
}

// Query assembles the SMT text for an obligation.
func (vc *FuncVC) Query(o *Obligation) string { return vc.query(o, false) }

// QueryEntryOnly is the query of a vacuity guard with every hypothesis dropped that was produced while encoding a
// block (callee postconditions, loop invariants, heap updates): what remains is the function's own precondition, the
// global invariants and axioms, and the branch conditions (definitions). If a return site is unreachable even so, it is
// dead code with respect to the precondition itself (a defensive check), not a sign of contradictory assumptions.
func (vc *FuncVC) QueryEntryOnly(o *Obligation) string { return vc.query(o, true) }

func (vc *FuncVC) query(o *Obligation, entryOnly bool) string {
	var b strings.Builder
	b.WriteString(prelude)
	for _, d := range vc.tc.structDecl {
		b.WriteString(d + "\n")
	}
	for _, d := range vc.tc.boxDecls {
		b.WriteString(d + "\n")
	}
	for _, d := range vc.tc.extraDecls {
		b.WriteString(d + "\n")
	}
	for _, d := range vc.tc.implementsAxioms() {
		b.WriteString(d + "\n")
	}
	anc := vc.ancestors(o.Block)
	for i, d := range vc.decls[:o.Cut] {
		// slicing: assertions made in blocks that cannot reach the obligation's block are irrelevant to it
		// (declarations and definitions are always kept; they constrain nothing)
		if anc != nil && i < len(vc.declBlock) && vc.declBlock[i] >= 0 && !anc[vc.declBlock[i]] && strings.HasPrefix(d, "(assert") {
			continue
		}
		if entryOnly && i < len(vc.declBlock) && vc.declBlock[i] >= 0 && strings.HasPrefix(d, "(assert") {
			continue
		}
		b.WriteString(d + "\n")
	}
	fmt.Fprintf(&b, "; obligation %s (%s) %s\n", o.Name, o.Where, o.Desc)
	fmt.Fprintf(&b, "(assert %s)\n", o.Guard.S)
	if !o.Cover {
		fmt.Fprintf(&b, "(assert (not %s))\n", o.Goal.S)
	}
	return b.String()
}

// ---------------------------------------------------------------------------------------------
// frames

func (vc *FuncVC) modPred(mods []modLoc, r Term) Term {
	var ds []Term
	for _, m := range mods {
		switch m.kind {
		case "any":
			return True
		case "obj":
			ds = append(ds, Eq(App(SRef, "root", r), App(SRef, "root", m.t)))
		case "addr":
			ds = append(ds, Eq(r, m.t))
		case "tree":
			// r is the cell itself or a field (of a field (of a field)) of it; only field references have a fld_base
			isF := func(x Term) Term { return Eq(App(SInt, "rkind", x), IntLit(1)) }
			b1 := App(SRef, "fld_base", r)
			b2 := App(SRef, "fld_base", b1)
			b3 := App(SRef, "fld_base", b2)
			ds = append(ds, Eq(r, m.t), And(isF(r), Eq(b1, m.t)), And(isF(r), isF(b1), Eq(b2, m.t)), And(isF(r), isF(b1), isF(b2), Eq(b3, m.t)))
		case "map":
			ds = append(ds, Eq(r, m.t))
		case "elems":
			ds = append(ds, And(Eq(App(SInt, "rkind", r), IntLit(2)), Eq(App(SRef, "elem_base", r), m.t)))
		case "elems-agg":
			er := App(SRef, "eroot", r)
			ds = append(ds, And(Eq(App(SInt, "rkind", er), IntLit(2)), Eq(App(SRef, "elem_base", er), m.t)))
		case "fieldsof":
			base := App(SRef, "fld_base", r)
			c := And(Eq(App(SInt, "rkind", r), IntLit(1)), Eq(App(SInt, "fld_idx", r), IntLit(int64(m.idx))))
			if m.cond != nil {
				ce := m.env.child()
				ce.vars[m.condVar] = SVal{base, m.condTy}
				ct, err := ce.Bool(m.cond)
				if err != nil {
					vc.errorf("fieldsof condition: %v", err)
				} else {
					c = And(c, ct)
				}
			}
			ds = append(ds, c)
		}
	}
	return Or(ds...)
}

// evalModifies turns modifies clauses into locations, in env.
func (vc *FuncVC) evalModifies(cls []*Clause, env *Env) []modLoc {
	var out []modLoc
	for _, c := range cls {
		for _, x := range c.Exprs {
			loc, err := vc.modLocOf(x, env, c)
			if err != nil {
				vc.errorf("%s: modifies %s: %v", c.Where, exprString(x), err)
				continue
			}
			out = append(out, loc...)
		}
	}
	return out
}

func (vc *FuncVC) modLocOf(x ast.Expr, env *Env, c *Clause) ([]modLoc, error) {
	e := *env
	e.ctx = c.Ctx
	switch n := x.(type) {
	case *ast.Ident:
		if n.Name == "any" {
			return []modLoc{{kind: "any"}}, nil
		}
	case *ast.StarExpr:
		v, err := e.Eval(n.X)
		if err != nil {
			return nil, err
		}
		if v.T.Sort != SRef {
			return nil, fmt.Errorf("*x needs a pointer")
		}
		return []modLoc{{kind: "obj", t: v.T}}, nil
	case *ast.CallExpr:
		if fn, ok := identName(n.Fun); ok && fn == "fieldsof" && len(n.Args) >= 2 {
			// fieldsof(T, F [, p, cond]): field F of every object of struct type T (optionally those satisfying cond(p))
			ty, err := resolveTypeExpr(e.ctx, n.Args[0])
			if err != nil {
				return nil, err
			}
			fname, _ := identName(n.Args[1])
			path, ok := fieldPath(ty, fname, 0)
			if !ok || len(path) != 1 {
				return nil, fmt.Errorf("fieldsof: no direct field %s in %s", fname, typeString(ty))
			}
			st := under(derefType(ty)).(*types.Struct)
			fs := vc.tc.SortOf(st.Field(path[0]).Type())
			loc := modLoc{kind: "fieldsof", sort: fs, idx: path[0]}
			if len(n.Args) == 4 {
				pn, _ := identName(n.Args[2])
				loc.condVar = pn
				loc.condTy = types.NewPointer(derefType(ty))
				loc.cond = n.Args[3]
				ce := e
				loc.env = &ce
			}
			return []modLoc{loc}, nil
		}
		if fn, ok := identName(n.Fun); ok && len(n.Args) == 1 {
			if pf := vc.S.Pure[fn]; pf != nil && pf.State {
				key, _, _ := vc.ghostStateComp(pf)
				if an, ok := identName(n.Args[0]); ok && an == "any" {
					return []modLoc{{kind: "gstate-all", gkey: key}}, nil
				}
				v, err := e.Eval(n.Args[0])
				if err != nil {
					return nil, err
				}
				return []modLoc{{kind: "gstate", t: v.T, gkey: key}}, nil
			}
			switch fn {
			case "elems":
				v, err := e.Eval(n.Args[0])
				if err != nil {
					return nil, err
				}
				if sl, ok := under(v.Ty).(*types.Slice); ok {
					// element cells of the slice's backing array (only the heaps of the element's leaf sorts)
					es := vc.tc.SortOf(sl.Elem())
					leaf := vc.tc.StructInfo(es) == nil && !isArraySort(es)
					loc := modLoc{kind: "elems", t: App(SRef, "sarr", v.T), sort: es}
					if !leaf {
						loc.kind = "elems-agg"
					}
					return []modLoc{loc}, nil
				}
				return []modLoc{{kind: "obj", t: App(SRef, "sarr", v.T)}}, nil
			case "fieldsof":
				// handled below (needs 2+ args)
			case "mapobj":
				v, err := e.Eval(n.Args[0])
				if err != nil {
					return nil, err
				}
				return []modLoc{{kind: "map", t: v.T}}, nil
			}
		}
	}
	a, ty, err := e.Addr(x)
	if err != nil {
		return nil, err
	}
	s := vc.tc.SortOf(ty)
	if vc.tc.StructInfo(s) != nil || isArraySort(s) {
		return []modLoc{{kind: "tree", t: a}}, nil
	}
	return []modLoc{{kind: "addr", t: a, sort: s}}, nil
}

// arrloadFn declares (once) the function reading a whole Go array value out of an element heap.
func (vc *FuncVC) arrloadFn(es Sort) string {
	fn := "arrload_" + mangle(string(es))
	s := ArraySort(SInt, es)
	vc.tc.Declare(fn, fmt.Sprintf("(declare-fun %s (%s Ref) %s)\n(assert (forall ((h %s) (p Ref) (i Int)) (! (= (select (%s h p) i) (select h (elem p i))) :pattern ((select (%s h p) i)))))",
		fn, ArraySort(SRef, es), s, ArraySort(SRef, es), fn, fn))
	return fn
}

// ghostStateComp registers the state component behind a `ghost state` declaration.
func (vc *FuncVC) ghostStateComp(pf *PureFunc) (string, Sort, Sort) {
	ks := vc.tc.SortOf(pf.PTypes[0])
	vs := vc.tc.SortOf(pf.RType)
	key := "GS:" + pf.Name
	vc.ensureComp(key, ArraySort(ks, vs))
	return key, ks, vs
}

// arrayTyped: the backing array of a []T holds T's (two slices of different element types never share an array).
func (vc *FuncVC) arrayTyped(t Term, st *types.Slice) Term {
	arr := App(SRef, "sarr", t)
	return Or(Eq(arr, Null), Eq(App(SInt, "atype", arr), IntLit(int64(vc.tc.TypeID(st.Elem())))))
}

// ancestors returns the blocks from which block bi is reachable along forward (non back) edges, itself included.
func (vc *FuncVC) ancestors(bi int) map[int]bool {
	if bi < 0 || vc.fn == nil || bi >= len(vc.fn.Blocks) {
		return nil
	}
	vc.ancMu.Lock() // Query runs on several goroutines
	defer vc.ancMu.Unlock()
	if vc.ancCache == nil {
		vc.ancCache = map[int]map[int]bool{}
	}
	if a, ok := vc.ancCache[bi]; ok {
		return a
	}
	a := map[int]bool{bi: true}
	stack := []*ssa.BasicBlock{vc.fn.Blocks[bi]}
	for len(stack) > 0 {
		x := stack[len(stack)-1]
		stack = stack[:len(stack)-1]
		for _, p := range x.Preds {
			if x.Dominates(p) {
				continue // back edge
			}
			if !a[p.Index] {
				a[p.Index] = true
				stack = append(stack, p)
			}
		}
	}
	vc.ancCache[bi] = a
	return a
}

// pointerTyped: a non-nil *T value points to a T (pointers of different static element types are different
// references; interior pointers are distinct terms from the pointer to the enclosing object).
func (vc *FuncVC) pointerTyped(t Term, pt *types.Pointer) Term {
	return Or(Eq(t, Null), Eq(App(SInt, "ptype", t), IntLit(int64(vc.tc.TypeID(pt.Elem())))))
}
