package main

// Replay: turning a failed obligation into a failing run of the real code.
//
// The solvers almost never return a model for a failed obligation of this code base (the goals quantify over slices,
// maps and ghost predicates and come back `unknown` or time out). For the class of obligations where a concrete run
// can be judged — a postcondition (not over locals) of a top-level function or method whose parameters are plain data
// (booleans, integers, strings, slices, maps, pointers and structs of those, errors, a context, a logger, an
// io.Writer) and whose clause is evaluable (no ghost function without a real counterpart, no `fresh`) — the failed
// clause is compiled to Go, the function is run on small generated inputs inside the real package (an in-package test
// injected with `go test -overlay`, nothing is written into the repository), and the first input on which the real
// code violates the clause is reported. Conjuncts that cannot be evaluated are dropped from a positive position
// (checking a weaker clause: a violation of the weaker clause is a violation of the clause). If no input is found, or
// the obligation is outside this class, the violation is reported with `no-failing-input-found` as before.

import (
	"bytes"
	"context"
	"encoding/json"
	"fmt"
	"go/ast"
	"go/token"
	"go/types"
	"os"
	"os/exec"
	"path/filepath"
	"regexp"
	"sort"
	"strconv"
	"strings"
	"time"
)

type goGen struct {
	S        *Specs
	ctx      *PkgCtx
	pkg      *types.Package
	imports  map[string]string // alias -> path actually used
	pures    map[string]bool   // pure funcs to emit
	rename   map[string]string // identifier renaming (params -> old_ copies, results)
	bound    map[string]bool
	errs     []string
	dropped  int
	neg      int               // 0: positive position, conjuncts may be dropped; 2: exact evaluation required
	oldNames map[string]string // parameter -> its copy taken before the call
}

var errUneval = fmt.Errorf("unevaluable")

// ghost functions with a real counterpart (Go expression templates over $1, $2, ...)
var ghostReal = map[string]struct {
	tmpl    string
	imports []string
}{
	"nameString":    {"($1).String()", nil},
	"cutBefore":     {"govcCut($1, $2, 0)", []string{"strings"}},
	"cutAfter":      {"govcCut($1, $2, 1)", []string{"strings"}},
	"cutFound":      {"strings.Contains($1, $2)", []string{"strings"}},
	"fileBase":      {"filepath.Base($1)", []string{"path/filepath"}},
	"joinPath":      {"filepath.Join($1, $2)", []string{"path/filepath"}},
	"pjoin":         {"path.Join($1, $2)", []string{"path"}},
	"lastBefore":    {"govcLastBefore($1, $2)", []string{"strings"}},
	"semverCmp":     {"xsemver.Compare($1, $2)", []string{"xsemver=golang.org/x/mod/semver"}},
	"sha256Of":      {"govcSha256($1)", []string{"crypto/sha256"}},
	"hexOf":         {"hex.EncodeToString([]byte($1))", []string{"encoding/hex"}},
	"timeAfter":     {"($1).After($2)", nil},
	"timeBefore":    {"($1).Before($2)", nil},
	"timeIsZero":    {"($1).IsZero()", nil},
	"timeAdd":       {"($1).Add($2)", nil},
	"modeIsDir":     {"($1).IsDir()", nil},
	"modeIsRegular": {"($1).IsRegular()", nil},
}

func (g *goGen) useImport(spec string) {
	alias, path := "", spec
	if i := strings.Index(spec, "="); i >= 0 {
		alias, path = spec[:i], spec[i+1:]
	} else {
		alias = path[strings.LastIndex(path, "/")+1:]
	}
	g.imports[alias] = path
}

func (g *goGen) expr(e ast.Expr) (string, error) {
	switch n := e.(type) {
	case *ast.ParenExpr:
		s, err := g.expr(n.X)
		return "(" + s + ")", err
	case *ast.BasicLit:
		return n.Value, nil
	case *ast.Ident:
		if r, ok := g.rename[n.Name]; ok {
			return r, nil
		}
		if g.bound[n.Name] {
			return n.Name, nil
		}
		switch n.Name {
		case "true", "false", "nil":
			return n.Name, nil
		}
		if g.pkg != nil && g.pkg.Scope().Lookup(n.Name) != nil {
			return n.Name, nil
		}
		return "", fmt.Errorf("identifier %s: %w", n.Name, errUneval)
	case *ast.SelectorExpr:
		if id, ok := n.X.(*ast.Ident); ok && g.rename[id.Name] == "" && !g.bound[id.Name] {
			if g.ctx != nil {
				if p, ok := g.ctx.Imports[id.Name]; ok && (g.pkg == nil || g.pkg.Scope().Lookup(id.Name) == nil) {
					if !ast.IsExported(n.Sel.Name) {
						return "", errUneval
					}
					g.imports[id.Name] = p.Path()
					return id.Name + "." + n.Sel.Name, nil
				}
			}
		}
		x, err := g.expr(n.X)
		if err != nil {
			return "", err
		}
		return x + "." + n.Sel.Name, nil
	case *ast.StarExpr:
		x, err := g.expr(n.X)
		return "(*" + x + ")", err
	case *ast.UnaryExpr:
		save := g.neg
		g.neg = 2
		x, err := g.expr(n.X)
		g.neg = save
		return "(" + n.Op.String() + x + ")", err
	case *ast.BinaryExpr:
		if n.Op == token.LAND {
			// a conjunct that cannot be evaluated is dropped (weaker clause)
			a, ea := g.expr(n.X)
			b, eb := g.expr(n.Y)
			switch {
			case ea == nil && eb == nil:
				return "(" + a + " && " + b + ")", nil
			case ea == nil && g.positive():
				g.dropped++
				return a, nil
			case eb == nil && g.positive():
				g.dropped++
				return b, nil
			}
			if ea != nil {
				return "", ea
			}
			return "", eb
		}
		save := g.neg
		if n.Op != token.LOR {
			g.neg = 2 // below a comparison / arithmetic nothing may be dropped
		}
		a, err := g.expr(n.X)
		if err != nil {
			g.neg = save
			return "", err
		}
		b, err := g.expr(n.Y)
		g.neg = save
		if err != nil {
			return "", err
		}
		switch n.Op {
		case token.EQL:
			return "govcEq(" + a + ", " + b + ")", nil
		case token.NEQ:
			return "(!govcEq(" + a + ", " + b + "))", nil
		case token.SUB, token.MUL, token.QUO, token.REM, token.LSS, token.LEQ, token.GTR, token.GEQ:
			// integer operands of different named types are compared / combined as int64
			return "(govcN(" + a + ") " + n.Op.String() + " govcN(" + b + "))", nil
		}
		return "(" + a + " " + n.Op.String() + " " + b + ")", nil
	case *ast.IndexExpr:
		x, err := g.expr(n.X)
		if err != nil {
			return "", err
		}
		i, err := g.expr(n.Index)
		if err != nil {
			return "", err
		}
		return x + "[" + i + "]", nil
	case *ast.SliceExpr:
		x, err := g.expr(n.X)
		if err != nil {
			return "", err
		}
		lo, hi := "", ""
		if n.Low != nil {
			if lo, err = g.expr(n.Low); err != nil {
				return "", err
			}
		}
		if n.High != nil {
			if hi, err = g.expr(n.High); err != nil {
				return "", err
			}
		}
		return x + "[" + lo + ":" + hi + "]", nil
	case *ast.TypeAssertExpr:
		x, err := g.expr(n.X)
		if err != nil {
			return "", err
		}
		t, err := g.typeExpr(n.Type)
		if err != nil {
			return "", err
		}
		return x + ".(" + t + ")", nil
	case *ast.CompositeLit:
		t, err := g.typeExpr(n.Type)
		if err != nil {
			return "", err
		}
		var parts []string
		for _, el := range n.Elts {
			if kv, ok := el.(*ast.KeyValueExpr); ok {
				v, err := g.expr(kv.Value)
				if err != nil {
					return "", err
				}
				parts = append(parts, exprString(kv.Key)+": "+v)
			} else {
				v, err := g.expr(el)
				if err != nil {
					return "", err
				}
				parts = append(parts, v)
			}
		}
		return t + "{" + strings.Join(parts, ", ") + "}", nil
	case *ast.CallExpr:
		return g.call(n)
	}
	return "", fmt.Errorf("%T: %w", e, errUneval)
}

// polarity bookkeeping: neg == 0 positive, 1 negative, 2 no dropping allowed
func (g *goGen) positive() bool { return g.neg == 0 }

func (g *goGen) typeExpr(e ast.Expr) (string, error) {
	switch n := e.(type) {
	case *ast.Ident:
		if types.Universe.Lookup(n.Name) != nil {
			return n.Name, nil
		}
		if g.pkg != nil && g.pkg.Scope().Lookup(n.Name) != nil {
			return n.Name, nil
		}
		return "", errUneval
	case *ast.SelectorExpr:
		if id, ok := n.X.(*ast.Ident); ok && g.ctx != nil {
			if p, ok := g.ctx.Imports[id.Name]; ok && ast.IsExported(n.Sel.Name) {
				g.imports[id.Name] = p.Path()
				return id.Name + "." + n.Sel.Name, nil
			}
		}
	case *ast.StarExpr:
		t, err := g.typeExpr(n.X)
		return "*" + t, err
	case *ast.ArrayType:
		if n.Len == nil {
			t, err := g.typeExpr(n.Elt)
			return "[]" + t, err
		}
	case *ast.MapType:
		k, err := g.typeExpr(n.Key)
		if err != nil {
			return "", err
		}
		v, err := g.typeExpr(n.Value)
		return "map[" + k + "]" + v, err
	case *ast.InterfaceType:
		if n.Methods == nil || len(n.Methods.List) == 0 {
			return "interface{}", nil
		}
	}
	return "", errUneval
}

func (g *goGen) quant(n *ast.CallExpr, universal bool) (string, error) {
	name, ok := identName(n.Args[0])
	if !ok {
		return "", errUneval
	}
	if len(n.Args) != 4 {
		return "", fmt.Errorf("quantifier over a type: %w", errUneval)
	}
	save := g.neg
	g.neg = 2
	lo, err := g.expr(n.Args[1])
	if err != nil {
		g.neg = save
		return "", err
	}
	hi, err := g.expr(n.Args[2])
	g.neg = save
	if err != nil {
		return "", err
	}
	was := g.bound[name]
	g.bound[name] = true
	if !universal && g.neg == 0 {
		g.neg = 2 // dropping a conjunct under an existential strengthens nothing: not allowed
	}
	body, err := g.expr(n.Args[3])
	g.neg = save
	g.bound[name] = was
	if err != nil {
		return "", err
	}
	if universal {
		return fmt.Sprintf("func() bool { for %s := int(%s); %s < int(%s); %s++ { if !(%s) { return false } }; return true }()", name, lo, name, hi, name, body), nil
	}
	return fmt.Sprintf("func() bool { for %s := int(%s); %s < int(%s); %s++ { if %s { return true } }; return false }()", name, lo, name, hi, name, body), nil
}

func (g *goGen) call(n *ast.CallExpr) (string, error) {
	fn, isIdent := identName(n.Fun)
	arg := func(i int) (string, error) { return g.expr(n.Args[i]) }
	strict := func(f func() (string, error)) (string, error) {
		save := g.neg
		g.neg = 2
		s, err := f()
		g.neg = save
		return s, err
	}
	if isIdent {
		switch fn {
		case "implies":
			save := g.neg
			g.neg = 2 // the antecedent must be evaluated exactly
			a, err := g.expr(n.Args[0])
			g.neg = save
			if err != nil {
				return "", err
			}
			b, err := g.expr(n.Args[1])
			if err != nil {
				return "", err
			}
			return "(!(" + a + ") || (" + b + "))", nil
		case "iff":
			return strict(func() (string, error) {
				a, err := arg(0)
				if err != nil {
					return "", err
				}
				b, err := arg(1)
				return "((" + a + ") == (" + b + "))", err
			})
		case "forall":
			return g.quant(n, true)
		case "exists":
			return g.quant(n, false)
		case "forallkeys", "existskey":
			k, ok := identName(n.Args[0])
			if !ok || len(n.Args) != 3 {
				return "", errUneval
			}
			m, err := strict(func() (string, error) { return arg(1) })
			if err != nil {
				return "", err
			}
			was := g.bound[k]
			g.bound[k] = true
			save := g.neg
			if fn == "existskey" && g.neg == 0 {
				g.neg = 2
			}
			body, err := g.expr(n.Args[2])
			g.neg = save
			g.bound[k] = was
			if err != nil {
				return "", err
			}
			if fn == "forallkeys" {
				return fmt.Sprintf("func() bool { for %s := range %s { if !(%s) { return false } }; return true }()", k, m, body), nil
			}
			return fmt.Sprintf("func() bool { for %s := range %s { if %s { return true } }; return false }()", k, m, body), nil
		case "old":
			save := g.rename
			g.rename = map[string]string{}
			for k, v := range save {
				g.rename[k] = v
			}
			for k, v := range g.oldNames {
				g.rename[k] = v
			}
			s, err := strict(func() (string, error) { return arg(0) })
			g.rename = save
			return s, err
		case "len", "cap":
			s, err := strict(func() (string, error) { return arg(0) })
			return "int(" + fn + "(" + s + "))", err
		case "has":
			return strict(func() (string, error) {
				m, err := arg(0)
				if err != nil {
					return "", err
				}
				k, err := arg(1)
				return "govcHas(" + m + ", " + k + ")", err
			})
		case "nonnil":
			s, err := strict(func() (string, error) { return arg(0) })
			return "(" + s + " != nil)", err
		case "ite":
			return strict(func() (string, error) {
				c, err := arg(0)
				if err != nil {
					return "", err
				}
				a, err := arg(1)
				if err != nil {
					return "", err
				}
				b, err := arg(2)
				return "govcIte(" + c + ", " + a + ", " + b + ")", err
			})
		case "typeis":
			return strict(func() (string, error) {
				x, err := arg(0)
				if err != nil {
					return "", err
				}
				t, err := g.typeExpr(n.Args[1])
				if err != nil {
					return "", err
				}
				return "func() bool { _, ok := interface{}(" + x + ").(" + t + "); return ok }()", nil
			})
		case "box":
			s, err := strict(func() (string, error) { return arg(0) })
			return "interface{}(" + s + ")", err
		case "errIs":
			g.useImport("errors")
			return strict(func() (string, error) {
				a, err := arg(0)
				if err != nil {
					return "", err
				}
				b, err := arg(1)
				return "errors.Is(" + a + ", " + b + ")", err
			})
		case "contains", "hasprefix", "hassuffix":
			g.useImport("strings")
			f := map[string]string{"contains": "Contains", "hasprefix": "HasPrefix", "hassuffix": "HasSuffix"}[fn]
			return strict(func() (string, error) {
				a, err := arg(0)
				if err != nil {
					return "", err
				}
				b, err := arg(1)
				return "strings." + f + "(string(" + a + "), string(" + b + "))", err
			})
		case "in_re":
			g.useImport("regexp")
			return strict(func() (string, error) {
				a, err := arg(0)
				if err != nil {
					return "", err
				}
				b, err := arg(1)
				return "regexp.MustCompile(" + b + ").MatchString(string(" + a + "))", err
			})
		case "substr":
			return strict(func() (string, error) {
				a, err := arg(0)
				if err != nil {
					return "", err
				}
				lo, err := arg(1)
				if err != nil {
					return "", err
				}
				hi, err := arg(2)
				return "govcSubstr(" + a + ", int(" + lo + "), int(" + hi + "))", err
			})
		case "max", "min":
			return strict(func() (string, error) {
				a, err := arg(0)
				if err != nil {
					return "", err
				}
				b, err := arg(1)
				return fn + "(" + a + ", " + b + ")", err
			})
		case "zero":
			t, err := g.typeExpr(n.Args[0])
			if err != nil {
				return "", err
			}
			return "(*new(" + t + "))", nil
		case "string":
			s, err := strict(func() (string, error) { return arg(0) })
			return "string(" + s + ")", err
		case "param":
			if pn, ok := identName(n.Args[0]); ok {
				return "in_" + pn, nil
			}
			return "", errUneval
		case "fresh":
			// allocated by the call: not reachable from the arguments as they were before the call
			s, err := strict(func() (string, error) { return arg(0) })
			return "govcFreshIn(govcSeen, " + s + ")", err
		case "newsince", "sameobj", "allocated", "visited", "cardvisited", "loopentry", "ranged", "unboxptr", "arrstr", "bitand", "bitor":
			return "", fmt.Errorf("%s: %w", fn, errUneval)
		}
		if pf := g.S.Pure[fn]; pf != nil {
			var as []string
			s, err := strict(func() (string, error) {
				for i := range n.Args {
					a, err := arg(i)
					if err != nil {
						return "", err
					}
					as = append(as, a)
				}
				return "", nil
			})
			_ = s
			if err != nil {
				return "", err
			}
			if pf.Body == nil {
				gr, ok := ghostReal[fn]
				if !ok || pf.State {
					return "", fmt.Errorf("ghost %s: %w", fn, errUneval)
				}
				out := gr.tmpl
				for i, a := range as {
					out = strings.ReplaceAll(out, "$"+strconv.Itoa(i+1), a)
				}
				for _, im := range gr.imports {
					g.useImport(im)
				}
				return out, nil
			}
			g.pures[fn] = true
			return "govcPure_" + fn + "(" + strings.Join(as, ", ") + ")", nil
		}
		// conversion to a type of the package or a basic type
		if len(n.Args) == 1 {
			if t, err := g.typeExpr(n.Fun); err == nil {
				s, err := strict(func() (string, error) { return arg(0) })
				return t + "(" + s + ")", err
			}
		}
		return "", fmt.Errorf("call %s: %w", fn, errUneval)
	}
	if len(n.Args) == 1 {
		if t, err := g.typeExpr(n.Fun); err == nil {
			s, err := strict(func() (string, error) { return arg(0) })
			return t + "(" + s + ")", err
		}
	}
	return "", fmt.Errorf("call %s: %w", exprString(n.Fun), errUneval)
}

// goTypeString renders a type as Go source relative to package pkg, recording imports; ok is false for types the test
// file cannot name (unexported types of other packages).
func (g *goGen) goTypeString(t types.Type) (string, bool) {
	ok := true
	s := types.TypeString(t, func(p *types.Package) string {
		if g.pkg != nil && p.Path() == g.pkg.Path() {
			return ""
		}
		alias := p.Name()
		if prev, dup := g.imports[alias]; dup && prev != p.Path() {
			alias = alias + strconv.Itoa(len(g.imports))
		}
		g.imports[alias] = p.Path()
		return alias
	})
	var visit func(t types.Type, d int)
	visit = func(t types.Type, d int) {
		if d > 6 {
			return
		}
		switch x := t.(type) {
		case *types.Named:
			if o := x.Obj(); o.Pkg() != nil && (g.pkg == nil || o.Pkg().Path() != g.pkg.Path()) && !o.Exported() {
				ok = false
			}
			if ta := x.TypeArgs(); ta != nil {
				for i := 0; i < ta.Len(); i++ {
					visit(ta.At(i), d+1)
				}
			}
		case *types.Pointer:
			visit(x.Elem(), d+1)
		case *types.Slice:
			visit(x.Elem(), d+1)
		case *types.Array:
			visit(x.Elem(), d+1)
		case *types.Map:
			visit(x.Key(), d+1)
			visit(x.Elem(), d+1)
		case *types.Signature, *types.Chan:
			ok = false
		}
	}
	visit(t, 0)
	return s, ok
}

// generatable: can the harness build values of this type?
func generatable(t types.Type, depth int) bool {
	if depth > 5 {
		return true // deeper levels are left zero
	}
	switch x := t.(type) {
	case *types.Named:
		switch typeString(x) {
		case "context.Context", "github.com/notaryproject/notation-go/log.Logger", "io.Writer", "error", "time.Time", "time.Duration":
			return true
		}
		return generatable(x.Underlying(), depth+1)
	case *types.Basic:
		return x.Info()&(types.IsBoolean|types.IsInteger|types.IsString) != 0
	case *types.Pointer:
		return generatable(x.Elem(), depth+1)
	case *types.Slice:
		return generatable(x.Elem(), depth+1)
	case *types.Map:
		return generatable(x.Key(), depth+1) && generatable(x.Elem(), depth+1)
	case *types.Struct:
		return true // fields that cannot be generated stay zero
	case *types.Interface:
		return x.Empty() || typeString(t) == "error"
	}
	return false
}

const replayHelpers = `
func govcHas[K comparable, V any](m map[K]V, k K) bool { _, ok := m[k]; return ok }
func govcReach(seen map[uintptr]bool, v reflect.Value, depth int) {
	if depth > 8 || !v.IsValid() {
		return
	}
	switch v.Kind() {
	case reflect.Ptr:
		if !v.IsNil() {
			if seen[v.Pointer()] {
				return
			}
			seen[v.Pointer()] = true
			govcReach(seen, v.Elem(), depth+1)
		}
	case reflect.Interface:
		if !v.IsNil() {
			govcReach(seen, v.Elem(), depth+1)
		}
	case reflect.Slice:
		if !v.IsNil() {
			if v.Cap() > 0 {
				seen[v.Pointer()] = true
			}
			for i := 0; i < v.Len(); i++ {
				govcReach(seen, v.Index(i), depth+1)
			}
		}
	case reflect.Map:
		if !v.IsNil() {
			seen[v.Pointer()] = true
			it := v.MapRange()
			for it.Next() {
				govcReach(seen, it.Value(), depth+1)
			}
		}
	case reflect.Struct:
		for i := 0; i < v.NumField(); i++ {
			govcReach(seen, v.Field(i), depth+1)
		}
	}
}
var govcSeen map[uintptr]bool // what was reachable from the arguments before the call of the current trial

func govcFreshIn(seen map[uintptr]bool, x interface{}) bool {
	v := reflect.ValueOf(x)
	switch v.Kind() {
	case reflect.Ptr, reflect.Map:
		return !v.IsNil() && !seen[v.Pointer()]
	case reflect.Slice:
		return !v.IsNil() && v.Cap() > 0 && !seen[v.Pointer()]
	}
	return true
}
func govcN[T ~int | ~int8 | ~int16 | ~int32 | ~int64 | ~uint | ~uint8 | ~uint16 | ~uint32 | ~uint64 | ~uintptr](x T) int64 {
	return int64(x)
}
func govcIsNil(a interface{}) bool {
	if a == nil {
		return true
	}
	v := reflect.ValueOf(a)
	switch v.Kind() {
	case reflect.Ptr, reflect.Map, reflect.Slice, reflect.Func, reflect.Interface, reflect.Chan:
		return v.IsNil()
	}
	return false
}
func govcEq(a, b interface{}) (eq bool) {
	if govcIsNil(a) || govcIsNil(b) {
		return govcIsNil(a) && govcIsNil(b)
	}
	va, vb := reflect.ValueOf(a), reflect.ValueOf(b)
	if va.CanInt() && vb.CanInt() {
		return va.Int() == vb.Int()
	}
	if va.CanUint() && vb.CanUint() {
		return va.Uint() == vb.Uint()
	}
	if (va.CanInt() && vb.CanUint()) || (va.CanUint() && vb.CanInt()) {
		var x int64
		var y uint64
		if va.CanInt() {
			x, y = va.Int(), vb.Uint()
		} else {
			x, y = vb.Int(), va.Uint()
		}
		return x >= 0 && uint64(x) == y
	}
	if va.Kind() == reflect.String && vb.Kind() == reflect.String {
		return va.String() == vb.String()
	}
	if va.Kind() == reflect.Bool && vb.Kind() == reflect.Bool {
		return va.Bool() == vb.Bool()
	}
	if va.Kind() == reflect.Slice && vb.Kind() == reflect.Slice || va.Kind() == reflect.Map && vb.Kind() == reflect.Map {
		// slices and maps are compared as the references they are
		return va.Pointer() == vb.Pointer() && va.Len() == vb.Len()
	}
	defer func() {
		if recover() != nil {
			eq = reflect.DeepEqual(a, b)
		}
	}()
	return a == b
}
func govcIte[T any](c bool, a, b T) T { if c { return a }; return b }
func govcSubstr(s string, lo, hi int) string { if lo < 0 || hi > len(s) || lo > hi { return "" }; return s[lo:hi] }
func govcCut(s, sep string, part int) string { b, a, _ := strings.Cut(s, sep); if part == 0 { return b }; return a }
func govcLastBefore(s, sep string) string { i := strings.LastIndex(s, sep); if i < 0 { return s }; return s[:i] }
func govcSha256(s string) string { h := sha256.Sum256([]byte(s)); return string(h[:]) }

type govcGen struct {
	r      *rand.Rand
	strs   []string
	recent []string // strings already used in this trial: reused and mutated so that inputs relate to each other
}

func (g *govcGen) str() string {
	s := g.str0()
	if len(g.recent) < 64 {
		g.recent = append(g.recent, s)
	}
	return s
}

func (g *govcGen) str0() string {
	if len(g.recent) > 0 && g.r.Intn(3) == 0 {
		s := g.recent[g.r.Intn(len(g.recent))]
		switch g.r.Intn(7) {
		case 0, 1:
			return s
		case 2:
			return strings.ToUpper(s)
		case 3:
			return strings.ToLower(s)
		case 4:
			if len(s) > 0 {
				return s[:len(s)-1]
			}
		case 5:
			return s + g.strs[g.r.Intn(len(g.strs))]
		default:
			b := []byte(s)
			if len(b) > 0 {
				i := g.r.Intn(len(b))
				switch {
				case b[i] >= 'a' && b[i] <= 'z':
					b[i] -= 32
				case b[i] >= 'A' && b[i] <= 'Z':
					b[i] += 32
				default:
					b[i] = "a0.-"[g.r.Intn(4)]
				}
			}
			return string(b)
		}
		return s
	}
	switch g.r.Intn(6) {
	case 0:
		return ""
	case 1, 2, 3:
		return g.strs[g.r.Intn(len(g.strs))]
	case 4:
		a, b := g.strs[g.r.Intn(len(g.strs))], g.strs[g.r.Intn(len(g.strs))]
		return a + b
	}
	const al = "abAB01.-_:/*=, @+"
	n := g.r.Intn(5)
	b := make([]byte, n)
	for i := range b {
		b[i] = al[g.r.Intn(len(al))]
	}
	return string(b)
}

var (
	govcErrT    = reflect.TypeOf((*error)(nil)).Elem()
	govcCtxT    = reflect.TypeOf((*context.Context)(nil)).Elem()
	govcWriterT = reflect.TypeOf((*io.Writer)(nil)).Elem()
	govcTimeT   = reflect.TypeOf(time.Time{})
)

func (g *govcGen) fill(v reflect.Value, depth int) {
	if !v.CanSet() {
		return
	}
	t := v.Type()
	switch {
	case t == govcTimeT:
		switch g.r.Intn(4) {
		case 0:
		case 1:
			v.Set(reflect.ValueOf(time.Now().Add(-time.Hour)))
		case 2:
			v.Set(reflect.ValueOf(time.Now().Add(time.Hour)))
		default:
			v.Set(reflect.ValueOf(time.Unix(int64(g.r.Intn(4)), 0)))
		}
		return
	case t == govcErrT:
		if g.r.Intn(2) == 0 {
			v.Set(reflect.ValueOf(errors.New("e" + strconv.Itoa(g.r.Intn(3)))))
		}
		return
	case t == govcCtxT:
		v.Set(reflect.ValueOf(context.Background()))
		return
	case t == govcWriterT:
		v.Set(reflect.ValueOf(&govcWriter{max: g.r.Intn(6) - 1, fail: g.r.Intn(4) == 0}))
		return
	}
	if gl, ok := govcSpecial(t); ok {
		v.Set(gl)
		return
	}
	switch t.Kind() {
	case reflect.Bool:
		v.SetBool(g.r.Intn(2) == 0)
	case reflect.Int, reflect.Int8, reflect.Int16, reflect.Int32, reflect.Int64:
		v.SetInt(int64(g.r.Intn(9) - 2))
	case reflect.Uint, reflect.Uint8, reflect.Uint16, reflect.Uint32, reflect.Uint64:
		v.SetUint(uint64(g.r.Intn(8)))
	case reflect.String:
		v.SetString(g.str())
	case reflect.Ptr:
		if depth < 4 && g.r.Intn(8) != 0 {
			p := reflect.New(t.Elem())
			g.fill(p.Elem(), depth+1)
			v.Set(p)
		}
	case reflect.Slice:
		if depth < 4 {
			n := g.r.Intn(4)
			if n == 0 && g.r.Intn(2) == 0 {
				return
			}
			s := reflect.MakeSlice(t, n, n)
			for i := 0; i < n; i++ {
				g.fill(s.Index(i), depth+1)
			}
			v.Set(s)
		}
	case reflect.Map:
		if depth < 4 {
			n := g.r.Intn(4)
			if n == 0 && g.r.Intn(2) == 0 {
				return
			}
			m := reflect.MakeMap(t)
			for i := 0; i < n; i++ {
				k := reflect.New(t.Key()).Elem()
				g.fill(k, depth+1)
				e := reflect.New(t.Elem()).Elem()
				g.fill(e, depth+1)
				m.SetMapIndex(k, e)
			}
			v.Set(m)
		}
	case reflect.Struct:
		if depth < 5 {
			for i := 0; i < t.NumField(); i++ {
				g.fill(v.Field(i), depth+1)
			}
		}
	case reflect.Interface:
		if t.NumMethod() == 0 {
			switch g.r.Intn(4) {
			case 0:
			case 1:
				v.Set(reflect.ValueOf(g.str()))
			case 2:
				v.Set(reflect.ValueOf(g.r.Intn(5)))
			default:
				v.Set(reflect.ValueOf(map[string]interface{}{g.str(): g.str()}))
			}
		}
	}
}

type govcWriter struct {
	max   int
	fail  bool
	total int
}

func (w *govcWriter) Write(p []byte) (int, error) {
	n := len(p)
	if w.max >= 0 && n > w.max {
		n = w.max
	}
	w.total += n
	if w.fail || n < len(p) {
		return n, errors.New("short write")
	}
	return n, nil
}

func govcCopy(v reflect.Value, depth int) reflect.Value {
	if depth > 8 || !v.IsValid() {
		return v
	}
	switch v.Kind() {
	case reflect.Ptr:
		if v.IsNil() {
			return v
		}
		p := reflect.New(v.Type().Elem())
		p.Elem().Set(govcCopy(v.Elem(), depth+1))
		return p
	case reflect.Slice:
		if v.IsNil() {
			return v
		}
		s := reflect.MakeSlice(v.Type(), v.Len(), v.Len())
		for i := 0; i < v.Len(); i++ {
			s.Index(i).Set(govcCopy(v.Index(i), depth+1))
		}
		return s
	case reflect.Map:
		if v.IsNil() {
			return v
		}
		m := reflect.MakeMap(v.Type())
		for _, k := range v.MapKeys() {
			m.SetMapIndex(k, govcCopy(v.MapIndex(k), depth+1))
		}
		return m
	case reflect.Struct:
		c := reflect.New(v.Type()).Elem()
		c.Set(v)
		for i := 0; i < v.NumField(); i++ {
			if c.Field(i).CanSet() {
				c.Field(i).Set(govcCopy(v.Field(i), depth+1))
			}
		}
		return c
	}
	return v
}

func govcShow(v interface{}) string {
	b, err := json.Marshal(v)
	if err != nil || len(b) > 1500 {
		s := fmt.Sprintf("%+v", v)
		if len(s) > 1500 {
			s = s[:1500] + "..."
		}
		return s
	}
	return string(b)
}
`

// buildReplayTest returns the source of the in-package test for the failed postcondition, or an error when the
// obligation is outside the class described at the top of this file.
func buildReplayTest(P *Program, S *Specs, vc *FuncVC, label string, retSite string, trials int) (src string, note string, err error) {
	fn := vc.fn
	if fn == nil || fn.Parent() != nil || fn.Pkg == nil || fn.TypeParams().Len() > 0 || len(fn.TypeArgs()) > 0 {
		return "", "", fmt.Errorf("not a plain top-level function or method")
	}
	con := vc.con
	if con == nil {
		return "", "", fmt.Errorf("no contract")
	}
	var clause *Clause
	for _, en := range con.Ensures {
		if en.Label == label || label == "*" {
			// several clauses may share a label: all of them are checked together below
			clause = en
		}
	}
	if clause == nil {
		return "", "", fmt.Errorf("clause %s is not a plain postcondition", label)
	}
	pkg := fn.Pkg.Pkg
	g := &goGen{S: S, ctx: clause.Ctx, pkg: pkg, imports: map[string]string{}, pures: map[string]bool{}, rename: map[string]string{}, bound: map[string]bool{}, oldNames: map[string]string{}}
	sig := fn.Signature
	// parameters
	type par struct{ name, ty string }
	var pars []par
	recvName := ""
	params := fn.Params
	for i, p := range params {
		if !generatable(p.Type(), 0) {
			return "", "", fmt.Errorf("parameter %s of type %s cannot be generated", p.Name(), typeString(p.Type()))
		}
		ts, ok := g.goTypeString(p.Type())
		if !ok {
			return "", "", fmt.Errorf("parameter type %s cannot be named in a test", typeString(p.Type()))
		}
		name := p.Name()
		if name == "" || name == "_" {
			name = fmt.Sprintf("govcArg%d", i)
		}
		if i == 0 && sig.Recv() != nil {
			recvName = name
		}
		pars = append(pars, par{name, ts})
		g.rename[name] = "in_" + name
		g.oldNames[name] = "old_" + name
	}
	// results
	nres := sig.Results().Len()
	var rnames []string
	for i := 0; i < nres; i++ {
		rn := fmt.Sprintf("r%d", i)
		rnames = append(rnames, rn)
		g.rename[fmt.Sprintf("result%d", i)] = rn
		if i == 0 {
			g.rename["result"] = rn
		}
		if n := sig.Results().At(i).Name(); n != "" && n != "_" {
			g.rename[n] = rn
		}
	}
	// requires
	var reqs []string
	for _, r := range con.Requires {
		g.ctx = r.Ctx
		g.neg = 2
		s, err := g.expr(r.Expr)
		if err != nil {
			return "", "", fmt.Errorf("precondition %q is not evaluable: %v", r.Raw, err)
		}
		reqs = append(reqs, s)
	}
	// the failed clause(s) with this label
	var posts, raws []string
	for _, en := range con.Ensures {
		if en.Label != label && label != "*" {
			continue
		}
		g.ctx = en.Ctx
		g.neg = 0
		s, err := g.expr(en.Expr)
		if err != nil {
			continue
		}
		posts = append(posts, s)
		raws = append(raws, en.Raw)
	}
	if len(posts) == 0 {
		return "", "", fmt.Errorf("clause %s is not evaluable on a concrete run (ghost predicates, fresh, or quantification over a type)", label)
	}
	// pure functions used (transitively)
	var pureSrc []string
	done := map[string]bool{}
	for {
		var todo []string
		for n := range g.pures {
			if !done[n] {
				todo = append(todo, n)
			}
		}
		if len(todo) == 0 {
			break
		}
		sort.Strings(todo)
		for _, n := range todo {
			done[n] = true
			pf := S.Pure[n]
			g2 := &goGen{S: S, ctx: pf.Ctx, pkg: pkg, imports: g.imports, pures: g.pures, rename: map[string]string{}, bound: map[string]bool{}, oldNames: map[string]string{}, neg: 2}
			var ps []string
			for i, pn := range pf.Params {
				ts, ok := g.goTypeString(pf.PTypes[i])
				if !ok {
					return "", "", fmt.Errorf("pure function %s has a parameter type that cannot be named", n)
				}
				ps = append(ps, pn+" "+ts)
				g2.bound[pn] = true
			}
			rt, ok := g.goTypeString(pf.RType)
			if !ok {
				return "", "", fmt.Errorf("pure function %s has a result type that cannot be named", n)
			}
			body, err := g2.expr(pf.Body)
			if err != nil {
				return "", "", fmt.Errorf("pure function %s is not evaluable: %v", n, err)
			}
			pureSrc = append(pureSrc, fmt.Sprintf("func govcPure_%s(%s) %s { return %s }", n, strings.Join(ps, ", "), rt, body))
		}
	}
	// string pool: constants of the function body and of the contract
	pool := map[string]bool{"a": true, "b": true, "*": true, "x:y": true, "CN=a": true, "1.0.0": true}
	for _, b := range fn.Blocks {
		for _, ins := range b.Instrs {
			for _, op := range ins.Operands(nil) {
				if op == nil || *op == nil {
					continue
				}
				if s, ok := constString(*op); ok && len(s) < 40 && len(pool) < 60 {
					pool[s] = true
				}
			}
		}
	}
	for _, m := range regexp.MustCompile(`"((?:[^"\\]|\\.){0,40})"`).FindAllStringSubmatch(strings.Join(raws, " "), -1) {
		if u, err := strconv.Unquote(`"` + m[1] + `"`); err == nil {
			pool[u] = true
		}
	}
	var poolL []string
	for s := range pool {
		poolL = append(poolL, strconv.Quote(s))
	}
	sort.Strings(poolL)
	// the call
	var callArgs []string
	start := 0
	callee := fn.Name()
	if sig.Recv() != nil {
		start = 1
		callee = "in_" + recvName + "." + fn.Name()
	}
	for _, p := range pars[start:] {
		callArgs = append(callArgs, "in_"+p.name)
	}
	if sig.Variadic() && len(callArgs) > 0 {
		callArgs[len(callArgs)-1] += "..."
	}
	needLog := false
	for _, p := range fn.Params {
		if strings.Contains(typeString(p.Type()), "notation-go/log.Logger") && pkg.Path() != repoModule+"/log" {
			needLog = true
		}
	}
	if needLog {
		g.imports["govclog"] = repoModule + "/log"
	}
	var b strings.Builder
	for _, im := range []string{"context", "encoding/json", "errors", "fmt", "io", "math/rand", "reflect", "strconv", "strings", "testing", "time", "crypto/sha256"} {
		g.useImport(im)
	}
	fmt.Fprintf(&b, "package %s\n\nimport (\n", pkg.Name())
	var als []string
	for a := range g.imports {
		als = append(als, a)
	}
	sort.Strings(als)
	for _, a := range als {
		if g.imports[a] == pkg.Path() {
			continue
		}
		fmt.Fprintf(&b, "\t%s %q\n", a, g.imports[a])
	}
	b.WriteString(")\n\nvar _ = []interface{}{context.Background, json.Marshal, errors.New, fmt.Sprint, io.EOF, rand.Int, reflect.TypeOf, strconv.Itoa, strings.Cut, time.Now, sha256.Sum256")
	for _, a := range als {
		switch g.imports[a] {
		case "context", "encoding/json", "errors", "fmt", "io", "math/rand", "reflect", "strconv", "strings", "testing", "time", "crypto/sha256", pkg.Path():
			continue
		}
		b.WriteString(", govcUse_" + a)
	}
	b.WriteString("}\n")
	// a harmless use of every other import (their use inside generated expressions is not guaranteed)
	for _, a := range als {
		switch g.imports[a] {
		case "context", "encoding/json", "errors", "fmt", "io", "math/rand", "reflect", "strconv", "strings", "testing", "time", "crypto/sha256", pkg.Path():
			continue
		}
		if ex := firstExported(P, g.imports[a]); ex != "" {
			fmt.Fprintf(&b, "var govcUse_%s = func() interface{} { type t = struct{}; _ = t{}; return %s }\n", a, a+"."+ex)
		} else {
			fmt.Fprintf(&b, "var govcUse_%s = 0\n", a)
		}
	}
	b.WriteString(replayHelpers)
	// special generators
	b.WriteString("\nfunc govcSpecial(t reflect.Type) (reflect.Value, bool) {\n")
	if needLog {
		b.WriteString("\tif t == reflect.TypeOf((*govclog.Logger)(nil)).Elem() {\n\t\treturn reflect.ValueOf(govclog.Discard), true\n\t}\n")
	}
	b.WriteString("\treturn reflect.Value{}, false\n}\n\n")
	for _, ps := range pureSrc {
		b.WriteString(ps + "\n")
	}
	fmt.Fprintf(&b, "\nfunc TestGovcReplay(t *testing.T) {\n\tg := &govcGen{r: rand.New(rand.NewSource(1)), strs: []string{%s}}\n", strings.Join(poolL, ", "))
	fmt.Fprintf(&b, "\tfor trial := 0; trial < %d; trial++ {\n\t\tg.recent = g.recent[:0]\n", trials)
	for _, p := range pars {
		fmt.Fprintf(&b, "\t\tvar in_%s %s\n\t\tg.fill(reflect.ValueOf(&in_%s).Elem(), 0)\n", p.name, p.ty, p.name)
	}
	if len(reqs) > 0 {
		fmt.Fprintf(&b, "\t\tif !(%s) {\n\t\t\tcontinue\n\t\t}\n", strings.Join(reqs, " && "))
	}
	for _, p := range pars {
		fmt.Fprintf(&b, "\t\told_%s := govcCopy(reflect.ValueOf(&in_%s).Elem(), 0).Interface().(%s)\n\t\t_ = old_%s\n", p.name, p.name, p.ty, p.name)
	}
	var shows []string
	for _, p := range pars {
		shows = append(shows, fmt.Sprintf("%q + govcShow(old_%s)", p.name+" = ", p.name))
	}
	b.WriteString("\t\tgovcSeen = map[uintptr]bool{}\n")
	for _, p := range pars {
		fmt.Fprintf(&b, "\t\tgovcReach(govcSeen, reflect.ValueOf(&in_%s).Elem(), 0)\n", p.name)
	}
	b.WriteString("\t\tinput := " + strings.Join(shows, " + \"; \" + ") + "\n")
	b.WriteString("\t\tfunc() {\n\t\t\tdefer func() {\n\t\t\t\tif r := recover(); r != nil {\n\t\t\t\t\tfmt.Printf(\"GOVC-CEX panic %v on input %s\\n\", r, input)\n\t\t\t\t\tt.FailNow()\n\t\t\t\t}\n\t\t\t}()\n")
	lhs := ""
	if nres > 0 {
		lhs = strings.Join(rnames, ", ") + " := "
	}
	fmt.Fprintf(&b, "\t\t\t%s%s(%s)\n", lhs, callee, strings.Join(callArgs, ", "))
	for _, rn := range rnames {
		fmt.Fprintf(&b, "\t\t\t_ = %s\n", rn)
	}
	for i, ps := range posts {
		var rs []string
		for _, rn := range rnames {
			rs = append(rs, fmt.Sprintf("%q + govcShow(%s)", rn+" = ", rn))
		}
		res := `""`
		if len(rs) > 0 {
			res = strings.Join(rs, " + \"; \" + ")
		}
		fmt.Fprintf(&b, "\t\t\tif !(%s) {\n\t\t\t\tfmt.Printf(\"GOVC-CEX clause %%s violated on input %%s ; results %%s\\n\", %q, input, %s)\n\t\t\t\tt.FailNow()\n\t\t\t}\n", ps, raws[i], res)
	}
	b.WriteString("\t\t}()\n\t}\n}\n")
	note = fmt.Sprintf("%d trial inputs generated from the parameter types; %d unevaluable conjunct(s) dropped", trials, g.dropped)
	return b.String(), note, nil
}

func firstExported(P *Program, path string) string {
	var p *types.Package
	for _, sp := range P.SSA.AllPackages() {
		if sp.Pkg.Path() == path {
			p = sp.Pkg
		}
	}
	if p == nil {
		return ""
	}
	names := p.Scope().Names()
	for _, n := range names {
		o := p.Scope().Lookup(n)
		if !o.Exported() {
			continue
		}
		switch o.(type) {
		case *types.Func, *types.Var:
			return n
		}
	}
	return ""
}

var reOblPost = regexp.MustCompile(`^(.*)/post:([^@]+)@ret(\d+)#\d+$`)

// tryReplay attempts to find an input on which the real code violates the failed clause. It fills rep["replay"] and
// returns true when a failing input was reproduced.
func tryReplay(P *Program, S *Specs, vcs []*FuncVC, f failure, rep map[string]any) bool {
	if os.Getenv("GOVC_NOREPLAY") != "" {
		return false
	}
	m := reOblPost.FindStringSubmatch(f.Obligation)
	if m == nil {
		// an invariant, assertion or safety obligation: the run is judged by all plain postconditions of the function
		// (and by not panicking)
		if f.Func == "" {
			rep["replay_note"] = "no concrete search for this kind of obligation"
			return false
		}
		m = []string{"", f.Func, "*", "0"}
	}
	key, label, ret := m[1], m[2], m[3]
	// one search per (function, clause); at most six searches per run
	ck := key + "|" + label
	if prev, ok := replayCache[ck]; ok {
		for k, v := range prev.rep {
			rep[k] = v
		}
		return prev.ok
	}
	if len(replayCache) >= 6 {
		rep["replay_note"] = "no concrete search: the limit of six searches per run was reached (earlier failed obligations of this run were searched)"
		return false
	}
	found := false
	defer func() {
		keep := map[string]any{}
		for _, k := range []string{"replay", "replay_note", "replay_search", "replay_test_source", "replay_command", "failing_input"} {
			if v, ok := rep[k]; ok {
				keep[k] = v
			}
		}
		replayCache[ck] = replayResult{found, keep}
	}()
	var vc *FuncVC
	for _, v := range vcs {
		if v.key == key {
			vc = v
		}
	}
	if vc == nil {
		return false
	}
	src, note, err := buildReplayTest(P, S, vc, label, ret, 4000)
	if err != nil {
		rep["replay_note"] = "no concrete search: " + err.Error()
		return false
	}
	out, cmdline, ok := runReplayTest(vc.fn.Pkg.Pkg.Path(), src)
	rep["replay_search"] = note
	rep["replay_test_source"] = src
	rep["replay_command"] = cmdline
	cex := ""
	for _, ln := range strings.Split(out, "\n") {
		if strings.HasPrefix(ln, "GOVC-CEX ") {
			cex = strings.TrimPrefix(ln, "GOVC-CEX ")
			break
		}
	}
	if !ok {
		rep["replay_note"] = "the generated test could not be run: " + trunc(out, 1200)
		return false
	}
	if cex == "" {
		rep["replay_note"] = "concrete search found no failing input among the generated ones"
		return false
	}
	rep["replay"] = "failing-input-found"
	rep["failing_input"] = cex
	found = true
	return true
}

type replayResult struct {
	ok  bool
	rep map[string]any
}

var replayCache = map[string]replayResult{}

// runReplayTest injects the test into the package with an overlay and runs it. ok is false when it did not build/run.
func runReplayTest(pkgPath, src string) (out string, cmdline string, ok bool) {
	rel := strings.TrimPrefix(strings.TrimPrefix(pkgPath, repoModule), "/")
	dir := filepath.Join(repoDir(), rel)
	tmp, err := os.MkdirTemp("", "govc-replay-")
	if err != nil {
		return err.Error(), "", false
	}
	defer os.RemoveAll(tmp)
	tf := filepath.Join(tmp, "zz_govc_replay_test.go")
	if err := os.WriteFile(tf, []byte(src), 0o644); err != nil {
		return err.Error(), "", false
	}
	ov := map[string]any{"Replace": map[string]string{filepath.Join(dir, "zz_govc_replay_test.go"): tf}}
	ob, _ := json.Marshal(ov)
	of := filepath.Join(tmp, "overlay.json")
	os.WriteFile(of, ob, 0o644)
	ctx, cancel := context.WithTimeout(context.Background(), 150*time.Second)
	defer cancel()
	args := []string{"test", "-overlay", of, "-vet=off", "-count=1", "-timeout", "60s", "-run", "^TestGovcReplay$", "."}
	cmd := exec.CommandContext(ctx, "go", args...)
	cmd.Dir = dir
	cmd.Env = append(os.Environ(), "GOFLAGS=-mod=mod", "GOPROXY=off", "GOSUMDB=off", "GOTOOLCHAIN=local")
	var buf bytes.Buffer
	cmd.Stdout = &buf
	cmd.Stderr = &buf
	runErr := cmd.Run()
	out = buf.String()
	cmdline = "cd " + dir + " && go " + strings.Join(args, " ") + "   (overlay: zz_govc_replay_test.go = replay_test_source of this file)"
	if strings.Contains(out, "[build failed]") || strings.Contains(out, "[setup failed]") || (runErr != nil && !strings.Contains(out, "--- FAIL") && !strings.Contains(out, "GOVC-CEX")) {
		return out, cmdline, false
	}
	return out, cmdline, true
}

// cmdReplay re-runs the test stored in a replay file against the current tree.
func cmdReplay(args []string) int {
	if len(args) < 1 {
		fmt.Fprintln(os.Stderr, "usage: govc replay <replay file>")
		return 2
	}
	b, err := os.ReadFile(args[0])
	if err != nil {
		fmt.Fprintln(os.Stderr, err)
		return 2
	}
	var rep map[string]any
	if json.Unmarshal(b, &rep) != nil {
		fmt.Fprintln(os.Stderr, "not a replay file")
		return 2
	}
	fmt.Printf("obligation: %v\nfunction:   %v\nwhere:      %v\ngoal:       %v\nsolvers:    %v\n", rep["obligation"], rep["function"], rep["where"], rep["goal"], rep["solvers_tried"])
	src, _ := rep["replay_test_source"].(string)
	if src == "" || rep["replay"] != "failing-input-found" {
		fmt.Printf("replay:     no failing input was found for this obligation (%v)\n", rep["replay_note"])
		return 0
	}
	fn, _ := rep["function"].(string)
	P, err := LoadProgram()
	if err != nil {
		fmt.Fprintln(os.Stderr, err)
		return 2
	}
	f := P.Func(fn)
	if f == nil || f.Pkg == nil {
		fmt.Println("replay:     the function no longer exists")
		return 0
	}
	out, _, ok := runReplayTest(f.Pkg.Pkg.Path(), src)
	if !ok {
		fmt.Println("replay:     the stored test does not build against the current tree:\n" + trunc(out, 1500))
		return 0
	}
	for _, ln := range strings.Split(out, "\n") {
		if strings.HasPrefix(ln, "GOVC-CEX ") {
			fmt.Println("replay:     REPRODUCED on the current tree: " + strings.TrimPrefix(ln, "GOVC-CEX "))
			return 1
		}
	}
	fmt.Println("replay:     not reproduced on the current tree (the stored inputs no longer violate the clause)")
	return 0
}

var _ = ast.IsExported
