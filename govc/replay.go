package main

// tryReplay attempts to turn the solver's counterexample into a failing run of the real code.
// It fills rep["replay"] and returns true when a failing input was reproduced.
func tryReplay(P *Program, S *Specs, vcs []*FuncVC, f failure, rep map[string]any) bool {
	return false
}
