package main

import (
	"fmt"
	"go/ast"
	"go/token"
	"go/types"
	"sort"
	"strconv"
	"strings"

	"golang.org/x/tools/go/ssa"
)

func funcObjKey(obj *types.Func) string {
	sig := obj.Type().(*types.Signature)
	pkgPath := ""
	if obj.Pkg() != nil {
		pkgPath = obj.Pkg().Path()
	}
	recv := sig.Recv()
	if recv == nil {
		return shortPkg(pkgPath) + "." + obj.Name()
	}
	t := recv.Type()
	ptr := false
	if p, ok := t.(*types.Pointer); ok {
		ptr = true
		t = p.Elem()
	}
	tn := "?"
	switch nt := types.Unalias(t).(type) {
	case *types.Named:
		tn = nt.Obj().Name()
		if nt.Obj().Pkg() != nil {
			pkgPath = nt.Obj().Pkg().Path()
		} else {
			pkgPath = ""
		}
	case *types.Interface:
		tn = "interface"
	}
	if ptr {
		return fmt.Sprintf("%s.(*%s).%s", shortPkg(pkgPath), tn, obj.Name())
	}
	return fmt.Sprintf("%s.(%s).%s", shortPkg(pkgPath), tn, obj.Name())
}

func invokeKey(c *ssa.CallCommon) string {
	k := funcObjKey(c.Method)
	if strings.Contains(k, "(interface)") {
		if nt, ok := types.Unalias(c.Value.Type()).(*types.Named); ok {
			pk := ""
			if nt.Obj().Pkg() != nil {
				pk = nt.Obj().Pkg().Path()
			}
			return fmt.Sprintf("%s.(%s).%s", shortPkg(pk), nt.Obj().Name(), c.Method.Name())
		}
	}
	return k
}

func calleeKey(fn *ssa.Function) string {
	if fn.Parent() != nil {
		return FuncKey(fn)
	}
	if o, ok := fn.Object().(*types.Func); ok && o != nil {
		return funcObjKey(o)
	}
	return FuncKey(fn)
}

// ---------------------------------------------------------------------------------------------
// name resolution

type defPoint struct {
	b      *ssa.BasicBlock
	idx    int
	val    ssa.Value
	isAddr bool
	ty     types.Type
	objPos token.Pos // declaration position of the variable (0: unknown)
}

func domDepth(b *ssa.BasicBlock) int {
	d := 0
	for x := b.Idom(); x != nil; x = x.Idom() {
		d++
	}
	return d
}

func (vc *FuncVC) buildDefs() map[string][]defPoint {
	defs := map[string][]defPoint{}
	for _, b := range vc.fn.Blocks {
		for i, ins := range b.Instrs {
			switch x := ins.(type) {
			case *ssa.Phi:
				if x.Comment != "" {
					defs[x.Comment] = append(defs[x.Comment], defPoint{b, i, x, false, x.Type(), 0})
				}
			case *ssa.Alloc:
				if x.Comment != "" && x.Comment != "varargs" && x.Comment != "complit" {
					defs[x.Comment] = append(defs[x.Comment], defPoint{b, i, x, true, derefType(x.Type()), x.Pos()})
				}
			case *ssa.DebugRef:
				if id, ok := x.Expr.(*ast.Ident); ok {
					ty := x.X.Type()
					if x.IsAddr {
						ty = derefType(ty)
					}
					var op token.Pos
					if o := x.Object(); o != nil {
						op = o.Pos()
					}
					defs[id.Name] = append(defs[id.Name], defPoint{b, i, x.X, x.IsAddr, ty, op})
				}
			}
		}
	}
	return defs
}

// resolver returns the name lookup function for program point (b, idx) with state st.
func (vc *FuncVC) resolver(defs map[string][]defPoint, b *ssa.BasicBlock, idx int, _ *State, phiOv map[ssa.Value]Term, extra map[string]SVal) func(string, *State) (SVal, bool) {
	return func(name string, st *State) (SVal, bool) {
		if v, ok := extra[name]; ok {
			return v, true
		}
		// in the entry state (old(...)) a parameter is its entry value, also when the function keeps it in a cell
		if st == vc.entry && st != nil {
			for _, p := range vc.fn.Params {
				if p.Name() == name {
					return SVal{vc.val(p), p.Type()}, true
				}
			}
		}
		var best *defPoint
		bestDepth := -1
		var onlyHead *ssa.BasicBlock
		if i := strings.LastIndex(name, "_L"); i > 0 {
			if k, err := strconv.Atoi(name[i+2:]); err == nil {
				for _, l := range vc.loops {
					if l.ordinal == k {
						onlyHead = l.head
						name = name[:i]
					}
				}
			}
		}
		for i := range defs[name] {
			d := &defs[name][i]
			if onlyHead != nil && d.b != onlyHead {
				continue
			}
			ok := false
			if d.b == b {
				ok = d.idx < idx
			} else {
				ok = d.b.Dominates(b)
			}
			if !ok {
				continue
			}
			// the value itself must be defined before the point
			if vi, isInstr := d.val.(ssa.Instruction); isInstr {
				vb := vi.Block()
				if vb != b && !vb.Dominates(b) {
					continue
				}
			}
			dd := domDepth(d.b)*100000 + d.idx
			if dd > bestDepth {
				bestDepth = dd
				best = d
			}
		}
		// a variable that lives in a cell (a local whose address is taken or that a closure captures) is read from
		// the cell in the current state: a value recorded by an earlier DebugRef is only a snapshot of it
		if best != nil && !best.isAddr && best.objPos != 0 {
			for i := range defs[name] {
				d := &defs[name][i]
				if al, isAlloc := d.val.(*ssa.Alloc); isAlloc && d.isAddr && al.Pos() == best.objPos && (d.b == b || d.b.Dominates(b)) {
					best = d
					break
				}
			}
			if !best.isAddr {
				for _, fv := range vc.fn.FreeVars {
					if fv.Name() == name && fv.Pos() == best.objPos {
						if pt, ok := under(fv.Type()).(*types.Pointer); ok {
							return SVal{vc.load(st, vc.val(fv), vc.tc.SortOf(pt.Elem())), pt.Elem()}, true
						}
					}
				}
			}
		}
		if best != nil {
			var t Term
			if ov, ok := phiOv[best.val]; ok {
				t = ov
			} else {
				t = vc.val(best.val)
			}
			if best.isAddr {
				return SVal{vc.load(st, t, vc.tc.SortOf(best.ty)), best.ty}, true
			}
			return SVal{t, best.ty}, true
		}
		for _, p := range vc.fn.Params {
			if p.Name() == name {
				return SVal{vc.val(p), p.Type()}, true
			}
		}
		for _, fv := range vc.fn.FreeVars {
			if fv.Name() == name {
				if pt, ok := under(fv.Type()).(*types.Pointer); ok {
					return SVal{vc.load(st, vc.val(fv), vc.tc.SortOf(pt.Elem())), pt.Elem()}, true
				}
				return SVal{vc.val(fv), fv.Type()}, true
			}
		}
		return SVal{}, false
	}
}

// ---------------------------------------------------------------------------------------------
// loops

func (vc *FuncVC) findLoops() {
	fn := vc.fn
	for _, h := range fn.Blocks {
		var backs, entries []*ssa.BasicBlock
		for _, p := range h.Preds {
			if h.Dominates(p) {
				backs = append(backs, p)
			} else {
				entries = append(entries, p)
			}
		}
		if len(backs) == 0 {
			continue
		}
		li := &loopInfo{head: h, body: map[*ssa.BasicBlock]bool{h: true}, backs: backs, entries: entries}
		// natural loop body
		var stack []*ssa.BasicBlock
		for _, b := range backs {
			if !li.body[b] {
				li.body[b] = true
				stack = append(stack, b)
			}
		}
		for len(stack) > 0 {
			x := stack[len(stack)-1]
			stack = stack[:len(stack)-1]
			for _, p := range x.Preds {
				if !li.body[p] {
					li.body[p] = true
					stack = append(stack, p)
				}
			}
		}
		for _, ins := range h.Instrs {
			if nx, ok := ins.(*ssa.Next); ok {
				if r, ok := nx.Iter.(*ssa.Range); ok {
					li.rng = r
				}
			}
		}
		vc.loops = append(vc.loops, li)
		vc.loopAt[h] = li
	}
	sort.Slice(vc.loops, func(i, j int) bool { return vc.loops[i].head.Index < vc.loops[j].head.Index })
	for i, l := range vc.loops {
		l.ordinal = i + 1
		if vc.con != nil && vc.con.Loops != nil {
			l.spec = vc.con.Loops[l.ordinal]
		}
	}
	// a loop contract for a loop the function does not have (a loop was removed, or replaced by a library call)
	if vc.con != nil && !vc.dry {
		for k, ls := range vc.con.Loops {
			if k > len(vc.loops) && ls != nil && (len(ls.Invariants) > 0 || len(ls.ExitAsserts) > 0) {
				vc.errorf("%s: loop %d: the function has only %d loop(s); the loop contract has no loop to apply to", vc.con.Where, k, len(vc.loops))
			}
		}
		if vc.fn != nil && vc.fn.Parent() == nil {
			for k, cs := range vc.con.Callback {
				if cs != nil && len(cs.Invariants) > 0 && k > len(vc.fn.AnonFuncs) {
					vc.errorf("%s: callback %d: the function has only %d closure(s)", vc.con.Where, k, len(vc.fn.AnonFuncs))
				}
			}
		}
	}
}

func (vc *FuncVC) enclosingLoops(b *ssa.BasicBlock) []*loopInfo {
	var out []*loopInfo
	for _, l := range vc.loops {
		if l.body[b] {
			out = append(out, l)
		}
	}
	return out
}

func visKeyOf(r *ssa.Range) string { return "G:vis:" + r.Name() }

// writtenComps computes the components a loop may write (nil = all).
func (vc *FuncVC) loopWrites(l *loopInfo) (map[string]bool, bool) {
	w := map[string]bool{}
	all := false
	addSort := func(s Sort) {
		acc := map[Sort]bool{}
		vc.leafSorts(s, acc)
		for ls := range acc {
			w[vc.heapComp(ls)] = true
		}
	}
	for b := range l.body {
		for _, ins := range b.Instrs {
			switch x := ins.(type) {
			case *ssa.Store:
				if a := vc.localAllocOf(x.Addr); a != nil && l.body[a.Block()] {
					// a cell of an object allocated in this very iteration: nothing that existed when the
					// iteration started is written (see DESIGN 2.4.1, loop havoc)
					continue
				}
				addSort(vc.tc.SortOf(derefType(x.Addr.Type())))
			case *ssa.MapUpdate:
				mt := under(x.Map.Type()).(*types.Map)
				dk, vk, _, _ := vc.mapComps(mt)
				w[dk], w[vk] = true, true
			case *ssa.Alloc:
				w["alloc"] = true
			case *ssa.MakeSlice:
				w["alloc"] = true
				addSort(vc.tc.SortOf(under(x.Type()).(*types.Slice).Elem()))
			case *ssa.MakeMap:
				w["alloc"] = true
				mt := under(x.Type()).(*types.Map)
				dk, vk, _, _ := vc.mapComps(mt)
				w[dk], w[vk] = true, true
			case *ssa.MakeClosure:
				w["alloc"] = true
			case *ssa.Range:
				if _, ok := under(x.X.Type()).(*types.Map); ok {
					w[visKeyOf(x)] = true
				}
			case *ssa.Next:
				if r, ok := x.Iter.(*ssa.Range); ok {
					w[visKeyOf(r)] = true
				}
			case *ssa.Defer:
				all = true
			case *ssa.RunDefers:
				all = true
			case ssa.CallInstruction:
				c := x.Common()
				if bi, ok := c.Value.(*ssa.Builtin); ok {
					switch bi.Name() {
					case "append":
						w["alloc"] = true
						addSort(vc.tc.SortOf(under(c.Args[0].Type()).(*types.Slice).Elem()))
					case "copy":
						if sl, ok := under(c.Args[0].Type()).(*types.Slice); ok {
							addSort(vc.tc.SortOf(sl.Elem()))
						}
					case "delete":
						mt := under(c.Args[0].Type()).(*types.Map)
						dk, vk, _, _ := vc.mapComps(mt)
						w[dk], w[vk] = true, true
					}
					continue
				}
				_, con := vc.calleeContract(c)
				if con != nil && con.Pure {
					continue
				}
				w["alloc"] = true
				if con == nil || len(con.Modifies) > 0 && !(len(con.Modifies) == 1 && len(con.Modifies[0].Exprs) == 0) {
					all = true
				}
			}
		}
	}
	return w, all
}

// ---------------------------------------------------------------------------------------------
// main encoding

func (vc *FuncVC) Encode() {
	vc.reset(true)
	vc.run()
	var known []compInfo
	for _, k := range vc.compOrder {
		known = append(known, *vc.comps[k])
	}
	vc.known = known
	vc.dryGlobals = map[string]bool{}
	for g := range vc.globals {
		vc.dryGlobals[g] = true
	}
	vc.reset(false)
	vc.caMatched = nil
	vc.run()
	// an assertion point that no longer exists: the function does not call the named callee any more, so the
	// statement the contract makes there is not checked anywhere
	if vc.con != nil {
		for _, ca := range vc.con.CallAsserts {
			if !vc.caMatched[ca] {
				site := ""
				if ca.Site != 0 {
					site = fmt.Sprintf(" (site %d)", ca.Site)
				}
				vc.errorf("%s: at call %s%s: the function has no such call; the assertion point is gone", ca.Clause.Where, ca.Callee, site)
			}
		}
	}
}

func rpo(fn *ssa.Function) []*ssa.BasicBlock {
	seen := map[*ssa.BasicBlock]bool{}
	var post []*ssa.BasicBlock
	var dfs func(b *ssa.BasicBlock)
	dfs = func(b *ssa.BasicBlock) {
		seen[b] = true
		for _, s := range b.Succs {
			if seen[s] || s.Dominates(b) { // skip back edges
				continue
			}
			dfs(s)
		}
		post = append(post, b)
	}
	dfs(fn.Blocks[0])
	// a block may be reachable only through paths the DFS order mis-sorts; use a proper topological order
	for i, j := 0, len(post)-1; i < j; i, j = i+1, j-1 {
		post[i], post[j] = post[j], post[i]
	}
	return post
}

func (vc *FuncVC) paramName(i int, p *ssa.Parameter) string { return "p_" + mangle(p.Name()) }

func (vc *FuncVC) run() {
	fn := vc.fn
	st := &State{ver: map[string]string{}}
	vc.entry = st
	vc.ensureComp("alloc", ArraySort(SRef, SBool))
	for _, c := range vc.known {
		vc.ensureComp(c.key, c.sort)
	}
	vc.emit("(assert (not (select %s null)))", vc.cur(st, "alloc").S)
	for i, p := range fn.Params {
		s := vc.tc.SortOf(p.Type())
		name := fmt.Sprintf("p%d_%s", i, mangle(p.Name()))
		vc.emit("(declare-const %s %s)", name, s)
		t := Term{name, s}
		vc.vals[p] = t
		vc.assume(True, vc.typeFacts(t, p.Type(), 0))
		vc.assume(True, vc.allocFacts(st, t, p.Type(), 0))
		if isContextType(p.Type()) {
			// convention of package context ("Do not pass a nil Context"): assumed of every function's own
			// context parameter, and demanded of every context argument passed to a repository function (calls.go)
			vc.assume(True, Not(Eq(t, Term{"nil_iface", SIface})))
			vc.note("assumed: context parameter " + p.Name() + " is not nil (package context: \"Do not pass a nil Context\"); checked at every call site inside the module")
		}
	}
	for i, p := range fn.FreeVars {
		s := vc.tc.SortOf(p.Type())
		name := fmt.Sprintf("fv%d_%s", i, mangle(p.Name()))
		vc.emit("(declare-const %s %s)", name, s)
		t := Term{name, s}
		vc.vals[p] = t
		vc.assume(True, vc.typeFacts(t, p.Type(), 0))
		vc.assume(True, vc.allocFacts(st, t, p.Type(), 0))
		if isContextType(p.Type()) {
			vc.assume(True, Not(Eq(t, Term{"nil_iface", SIface})))
		}
		if pt, ok := under(p.Type()).(*types.Pointer); ok && isContextType(pt.Elem()) {
			// a context variable captured by reference: not nil when the closure runs (obliged where the closure is made)
			vc.assume(True, Not(Eq(vc.load(st, t, SIface), Term{"nil_iface", SIface})))
		}
		if _, ok := under(p.Type()).(*types.Pointer); ok {
			vc.assume(True, Not(Eq(t, Null)))
			// a captured variable is a cell of its own
			vc.assume(True, And(Eq(App(SInt, "rkind", t), IntLit(0)), Eq(App(SRef, "root", t), t), App(SBool, "iscell", t)))
			// ... and a local variable of the enclosing function, never a package-level variable
			vc.tc.Declare("gid", "(declare-fun gid (Ref) Int)")
			vc.assume(True, Eq(App(SInt, "gid", t), IntLit(0)))
			for j := 0; j < i; j++ {
				if _, ok := under(fn.FreeVars[j].Type()).(*types.Pointer); ok {
					vc.assume(True, Not(Eq(t, vc.vals[fn.FreeVars[j]])))
				}
			}
		}
	}
	defs := vc.buildDefs()
	vc.findLoops()
	entryEnv := &Env{vc: vc, st: st, old: st, vars: map[string]SVal{}, lookup: vc.resolver(defs, fn.Blocks[0], 0, st, nil, nil)}
	// global invariants (assumed at entry; proved of init separately)
	for _, gi := range vc.S.GlobalInv {
		if vc.isInit || vc.dry {
			break
		}
		// only invariants about package-level variables this function (or its contracts) actually touches
		if !vc.mentionsDryGlobal(gi) {
			continue
		}
		e := *entryEnv
		e.ctx = gi.Ctx
		e.lookup = nil
		t, err := e.Bool(gi.Expr)
		if err != nil {
			// global invariants of unrelated packages may mention things we cannot resolve here: skip
			continue
		}
		vc.assume(True, t)
		if gi.Ctx != nil && gi.Ctx.Pkg != nil {
			if vc.usedInvPkgs == nil {
				vc.usedInvPkgs = map[string]bool{}
			}
			vc.usedInvPkgs[gi.Ctx.Pkg.Path()] = true
		}
	}
	vc.assumeAxioms(entryEnv)
	if cb := vc.callbackSpec(); cb != nil {
		e := *entryEnv
		e.vars = map[string]SVal{"cb_err": {Term{"nil_iface", SIface}, types.Universe.Lookup("error").Type()}}
		for _, inv := range cb.Invariants {
			e.ctx = inv.Ctx
			t, err := e.Bool(inv.Expr)
			if err != nil {
				vc.errorf("%s: callback invariant (closure entry): %v", inv.Where, err)
				continue
			}
			vc.assume(True, t)
		}
	}
	if vc.sweepNonNil {
		for _, p := range fn.Params {
			vc.assume(True, sweepParamFact(p, vc.val(p)))
		}
	}
	if vc.con != nil {
		for _, r := range vc.con.Requires {
			e := *entryEnv
			e.ctx = r.Ctx
			t, err := e.Bool(r.Expr)
			if err != nil {
				vc.errorf("%s: requires: %v", r.Where, err)
				continue
			}
			vc.assume(True, t)
		}
		e := *entryEnv
		fr := &frame{name: "func", allocPre: vc.cur(st, "alloc"), mods: vc.evalModifies(vc.con.Modifies, &e)}
		vc.frames = []*frame{fr}
		vc.withFrame = !vc.isInit
	}
	if vc.isInit {
		// the initialiser runs once: its guard is false on entry
		if g, ok := fn.Pkg.Members["init$guard"].(*ssa.Global); ok {
			vc.assume(True, Not(vc.load(st, vc.val(g), SBool)))
		}
	}
	vc.pendingClosed = nil
	vc.closedAxiom(st, "H:Ref")
	vc.closedAxiom(st, "H:Slice")
	order := rpo(fn)
	for _, b := range order {
		vc.block(b, defs)
	}
	// cover obligation: some return is reachable (vacuity guard / canary)
	var rets []Term
	for _, b := range order {
		if len(b.Instrs) > 0 {
			if _, ok := b.Instrs[len(b.Instrs)-1].(*ssa.Return); ok {
				rets = append(rets, vc.reach[b])
			}
		}
	}
	// vacuity guards: every return site must be reachable under the assumed contracts and invariants
	// (a contradictory assumption would otherwise discharge everything behind it)
	for _, b := range order {
		if len(b.Instrs) == 0 {
			continue
		}
		if _, ok := b.Instrs[len(b.Instrs)-1].(*ssa.Return); !ok {
			continue
		}
		if _, ok := vc.reach[b]; !ok {
			continue
		}
		if vc.deadReturnOK(b.Instrs[len(b.Instrs)-1].(*ssa.Return)) {
			continue
		}
		o := vc.oblige("cover", "", fmt.Sprintf("return site in block %d is reachable under the assumed contracts and invariants (vacuity guard)", b.Index), b.Instrs[len(b.Instrs)-1].Pos(), vc.reach[b], False)
		if o != nil {
			o.Cover = true
		}
	}
	_ = rets
}

func (vc *FuncVC) edgeCond(p, b *ssa.BasicBlock) Term {
	r := vc.reach[p]
	if len(p.Instrs) == 0 {
		return r
	}
	if iff, ok := p.Instrs[len(p.Instrs)-1].(*ssa.If); ok {
		c := vc.val(iff.Cond)
		if p.Succs[0] == b && p.Succs[1] == b {
			return r
		}
		if p.Succs[0] == b {
			return And(r, c)
		}
		return And(r, Not(c))
	}
	return r
}

// mergeStates builds the state at a join from (cond, state) pairs.
func (vc *FuncVC) mergeStates(hint string, conds []Term, sts []*State) *State {
	if len(sts) == 1 {
		return sts[0].clone()
	}
	out := &State{ver: map[string]string{}}
	for _, key := range vc.compOrder {
		first := vc.cur(sts[0], key)
		same := true
		for _, s := range sts[1:] {
			if vc.cur(s, key).S != first.S {
				same = false
				break
			}
		}
		if same {
			if v, ok := sts[0].ver[key]; ok {
				out.ver[key] = v
			}
			continue
		}
		nv := vc.newVersion(out, key)
		for i, s := range sts {
			vc.emit("(assert (=> %s (= %s %s)))", conds[i].S, nv.S, vc.cur(s, key).S)
		}
	}
	vc.flushClosed()
	return out
}

func (vc *FuncVC) block(b *ssa.BasicBlock, defs map[string][]defPoint) {
	vc.curB = b.Index
	defer func() { vc.curB = -1 }()
	fn := vc.fn
	var st *State
	l := vc.loopAt[b]
	if b == fn.Blocks[0] {
		vc.reach[b] = True
		st = vc.entry.clone()
	} else {
		var conds []Term
		var sts []*State
		var preds []*ssa.BasicBlock
		for _, p := range b.Preds {
			if b.Dominates(p) && l != nil {
				continue // back edge
			}
			if _, ok := vc.reach[p]; !ok {
				continue // unreachable predecessor
			}
			conds = append(conds, vc.edgeCond(p, b))
			sts = append(sts, vc.out[p])
			preds = append(preds, p)
		}
		if len(preds) == 0 {
			return
		}
		vc.reach[b] = vc.define(fmt.Sprintf("reach_b%d", b.Index), Or(conds...))
		st = vc.mergeStates(fmt.Sprintf("b%d", b.Index), conds, sts)
		if l == nil {
			// phis
			for _, ins := range b.Instrs {
				phi, ok := ins.(*ssa.Phi)
				if !ok {
					break
				}
				s := vc.tc.SortOf(phi.Type())
				t := vc.freshConst("phi_"+phi.Name(), s)
				vc.vals[phi] = t
				for i, p := range b.Preds {
					if _, ok := vc.reach[p]; !ok {
						continue
					}
					vc.emit("(assert (=> %s (= %s %s)))", vc.edgeCond(p, b).S, t.S, vc.val(phi.Edges[i]).S)
				}
			}
		} else {
			vc.loopHead(l, b, st, preds, conds, sts, defs)
			st = l.headSt.clone()
		}
	}
	for i, ins := range b.Instrs {
		if _, ok := ins.(*ssa.Phi); ok {
			continue
		}
		vc.instr(b, i, ins, st, defs)
	}
	vc.out[b] = st
	// normal loop exit from the head: checked-then-assumed exit assertions (instantiation lemmas)
	if l != nil && l.spec != nil && len(l.spec.ExitAsserts) > 0 {
		for _, s := range b.Succs {
			if l.body[s] {
				continue
			}
			g := vc.define("exit_L", vc.edgeCond(b, s))
			env := &Env{vc: vc, st: st, old: vc.entry, vars: map[string]SVal{}}
			env.lookup = vc.resolver(defs, b, len(b.Instrs), st, nil, nil)
			if l.rng != nil {
				env.visKey = visKeyOf(l.rng)
			}
			for _, ea := range l.spec.ExitAsserts {
				env.ctx = ea.Ctx
				t, err := env.Bool(ea.Expr)
				if err != nil {
					vc.errorf("%s: exit-assert: %v", ea.Where, err)
					continue
				}
				vc.oblige(fmt.Sprintf("exit-assert:L%d", l.ordinal), ea.Label, "holds when the loop terminates normally: "+ea.Raw, b.Instrs[len(b.Instrs)-1].Pos(), g, t)
				vc.assume(g, t)
			}
		}
	}
	// back edges leaving this block: invariant preservation
	for _, s := range b.Succs {
		if hl := vc.loopAt[s]; hl != nil && s.Dominates(b) {
			vc.backEdge(hl, b, st, defs)
		}
	}
}

func nPhis(b *ssa.BasicBlock) int {
	n := 0
	for _, ins := range b.Instrs {
		if _, ok := ins.(*ssa.Phi); ok {
			n++
		} else {
			break
		}
	}
	return n
}

func (vc *FuncVC) invEnv(l *loopInfo, st *State, defs map[string][]defPoint, phiOv map[ssa.Value]Term) *Env {
	env := &Env{vc: vc, st: st, old: vc.entry, vars: map[string]SVal{}}
	if l.fr != nil {
		env.loopAlloc = l.fr.allocPre
	} else if l.pre != nil {
		env.loopAlloc = vc.cur(l.pre, "alloc")
	}
	env.lookup = vc.resolver(defs, l.head, nPhis(l.head), st, phiOv, nil)
	if l.rng != nil {
		env.visKey = visKeyOf(l.rng)
	}
	if rv := rangedSlice(l); rv != nil {
		if t, ok := vc.vals[rv]; ok {
			env.ranged = &SVal{t, rv.Type()}
		} else if _, isParam := rv.(*ssa.Parameter); isParam {
			env.ranged = &SVal{vc.val(rv), rv.Type()}
		}
	}
	if l.pre != nil && len(l.entries) == 1 {
		ov := map[ssa.Value]Term{}
		for _, ins := range l.head.Instrs {
			phi, ok := ins.(*ssa.Phi)
			if !ok {
				break
			}
			for i, pp := range l.head.Preds {
				if pp == l.entries[0] {
					if t, ok := vc.vals[phi.Edges[i]]; ok {
						ov[phi] = t
					} else if c, ok := phi.Edges[i].(*ssa.Const); ok {
						ov[phi] = vc.constTerm(c.Value, c.Type())
					}
				}
			}
		}
		le := &Env{vc: vc, st: l.pre, old: vc.entry, vars: map[string]SVal{}}
		le.lookup = vc.resolver(defs, l.head, nPhis(l.head), l.pre, ov, nil)
		env.loopEntry = le
	}
	return env
}

func (vc *FuncVC) loopHead(l *loopInfo, b *ssa.BasicBlock, pre *State, preds []*ssa.BasicBlock, conds []Term, sts []*State, defs map[string][]defPoint) {
	reach := vc.reach[b]
	l.pre = pre
	// invariant on entry edges
	if l.spec != nil {
		for pi, p := range preds {
			phiOv := map[ssa.Value]Term{}
			for _, ins := range b.Instrs {
				phi, ok := ins.(*ssa.Phi)
				if !ok {
					break
				}
				for i, pp := range b.Preds {
					if pp == p {
						phiOv[phi] = vc.val(phi.Edges[i])
					}
				}
			}
			env := vc.invEnv(l, sts[pi], defs, phiOv)
			for _, inv := range l.spec.Invariants {
				env.ctx = inv.Ctx
				t, err := env.Bool(inv.Expr)
				if err != nil {
					vc.errorf("%s: invariant (entry): %v", inv.Where, err)
					continue
				}
				vc.oblige(fmt.Sprintf("inv-entry:L%d", l.ordinal), inv.Label, "loop invariant holds on entry: "+inv.Raw, b.Instrs[0].Pos(), conds[pi], t)
			}
		}
	}
	// frame for this loop
	fr := &frame{name: fmt.Sprintf("L%d", l.ordinal), allocPre: vc.cur(pre, "alloc")}
	if l.spec != nil {
		// modifies clauses are evaluated in the pre-state with the loop variables at their ENTRY values
		phiOv := map[ssa.Value]Term{}
		if len(preds) == 1 {
			for _, ins := range b.Instrs {
				phi, ok := ins.(*ssa.Phi)
				if !ok {
					break
				}
				for i, pp := range b.Preds {
					if pp == preds[0] {
						phiOv[phi] = vc.val(phi.Edges[i])
					}
				}
			}
		}
		env := vc.invEnv(l, pre, defs, phiOv)
		fr.mods = vc.evalModifies(l.spec.Modifies, env)
	}
	// a function that may modify anything (`modifies any`) and says nothing about a loop lets the loop modify anything
	if (l.spec == nil || len(l.spec.Modifies) == 0) && vc.con != nil {
		for _, m := range vc.con.Modifies {
			for _, x := range m.Exprs {
				if id, ok := x.(*ast.Ident); ok && id.Name == "any" {
					fr.mods = append(fr.mods, modLoc{kind: "any"})
				}
			}
		}
	}
	// auto: local cells declared outside the loop and stored directly in it
	for bb := range l.body {
		for _, ins := range bb.Instrs {
			if s, ok := ins.(*ssa.Store); ok {
				base := s.Addr
				for {
					if fa, ok := base.(*ssa.FieldAddr); ok {
						base = fa.X
						continue
					}
					break
				}
				if a, ok := base.(*ssa.Alloc); ok && !l.body[a.Block()] {
					fr.mods = append(fr.mods, modLoc{kind: "tree", t: vc.val(a)})
				}
				// a variable captured by this closure (its cell belongs to the enclosing function)
				if fv, ok := base.(*ssa.FreeVar); ok {
					fr.mods = append(fr.mods, modLoc{kind: "tree", t: vc.val(fv)})
				}
			}
			// maps created by this function before the loop and updated in it
			var mv ssa.Value
			switch x := ins.(type) {
			case *ssa.MapUpdate:
				mv = x.Map
			case ssa.CallInstruction:
				if bi, ok := x.Common().Value.(*ssa.Builtin); ok && bi.Name() == "delete" {
					mv = x.Common().Args[0]
				}
			}
			if mm, ok := mv.(*ssa.MakeMap); ok && !l.body[mm.Block()] {
				fr.mods = append(fr.mods, modLoc{kind: "map", t: vc.val(mm)})
			}
		}
	}
	l.fr = fr
	// havoc
	head := pre.clone()
	w, all := vc.loopWrites(l)
	for _, key := range vc.compOrder {
		if !all && !w[key] {
			continue
		}
		old := vc.cur(pre, key)
		nv := vc.newVersion(head, key)
		switch {
		case key == "alloc":
			r := vc.boundVar("r", SRef)
			vc.emit("(assert %s)", ForallAlt([]Term{r}, Implies(Select(old, r, SBool), Select(nv, r, SBool)), Select(old, r, SBool), Select(nv, r, SBool)).S)
		case strings.HasPrefix(key, "H:"):
			es := Sort(key[2:])
			r := vc.boundVar("r", SRef)
			cond := And(Select(fr.allocPre, App(SRef, "root", r), SBool), Not(vc.modPred(fr.mods, r)))
			vc.emit("(assert %s)", Forall([]Term{r}, Implies(cond, Eq(Select(nv, r, es), Select(old, r, es))), Select(nv, r, es)).S)
		case strings.HasPrefix(key, "MD:") || strings.HasPrefix(key, "MV:"):
			_, es := splitArraySort(vc.comps[key].sort)
			r := vc.boundVar("m", SRef)
			cond := And(Select(fr.allocPre, r, SBool), Not(vc.modPred(fr.mods, r)))
			vc.emit("(assert %s)", Forall([]Term{r}, Implies(cond, Eq(Select(nv, r, es), Select(old, r, es))), Select(nv, r, es)).S)
			if strings.HasPrefix(key, "MD:") {
				vc.emit("(assert (= (select %s null) (select %s null)))", nv.S, old.S)
			}
		}
	}
	l.headSt = head
	vc.flushClosed()
	// phis
	for _, ins := range b.Instrs {
		phi, ok := ins.(*ssa.Phi)
		if !ok {
			break
		}
		s := vc.tc.SortOf(phi.Type())
		t := vc.freshConst("phi_"+phi.Name(), s)
		vc.vals[phi] = t
		vc.assume(reach, vc.typeFacts(t, phi.Type(), 0))
		vc.assume(reach, vc.allocFacts(head, t, phi.Type(), 0))
	}
	vc.autoRangeIndex(l, b, reach)
	if l.spec != nil {
		env := vc.invEnv(l, head, defs, nil)
		for _, inv := range l.spec.Invariants {
			env.ctx = inv.Ctx
			t, err := env.Bool(inv.Expr)
			if err != nil {
				vc.errorf("%s: invariant (assume): %v", inv.Where, err)
				continue
			}
			vc.assume(reach, t)
		}
		if d := l.spec.Decreases; d != nil {
			env.ctx = d.Ctx
			v, err := env.Eval(d.Expr)
			if err != nil {
				vc.errorf("%s: decreases: %v", d.Where, err)
			} else {
				l.decr0 = vc.define("variant", v.T)
			}
		}
	}
}

func (vc *FuncVC) backEdge(l *loopInfo, from *ssa.BasicBlock, st *State, defs map[string][]defPoint) {
	if l.spec == nil {
		return
	}
	guard := vc.edgeCond(from, l.head)
	if o := vc.oblige("cover", "", fmt.Sprintf("back edge of loop %d from block %d is reachable under the invariants (vacuity guard)", l.ordinal, from.Index), l.head.Instrs[0].Pos(), guard, False); o != nil {
		o.Cover = true
	}
	phiOv := map[ssa.Value]Term{}
	for _, ins := range l.head.Instrs {
		phi, ok := ins.(*ssa.Phi)
		if !ok {
			break
		}
		for i, pp := range l.head.Preds {
			if pp == from {
				phiOv[phi] = vc.val(phi.Edges[i])
			}
		}
	}
	env := vc.invEnv(l, st, defs, phiOv)
	pos := l.head.Instrs[0].Pos()
	for _, inv := range l.spec.Invariants {
		env.ctx = inv.Ctx
		t, err := env.Bool(inv.Expr)
		if err != nil {
			vc.errorf("%s: invariant (keep): %v", inv.Where, err)
			continue
		}
		vc.oblige(fmt.Sprintf("inv-keep:L%d", l.ordinal), inv.Label, "loop invariant is preserved: "+inv.Raw, pos, guard, t)
	}
	if d := l.spec.Decreases; d != nil && l.decr0.S != "" {
		env.ctx = d.Ctx
		v, err := env.Eval(d.Expr)
		if err == nil {
			vc.oblige(fmt.Sprintf("decreases:L%d", l.ordinal), d.Label, "loop variant decreases and is bounded: "+d.Raw, pos, guard,
				And(App(SBool, ">=", l.decr0, IntLit(0)), App(SBool, "<", v.T, l.decr0)))
		}
	}
}

// ---------------------------------------------------------------------------------------------
// frame checks

func (vc *FuncVC) isLocalAddr(v ssa.Value) bool {
	for {
		switch x := v.(type) {
		case *ssa.Alloc:
			return true
		case *ssa.FieldAddr:
			v = x.X
		case *ssa.IndexAddr:
			if _, ok := under(x.X.Type()).(*types.Pointer); ok {
				v = x.X
			} else {
				return false
			}
		default:
			return false
		}
	}
}

func (vc *FuncVC) localAllocOf(v ssa.Value) *ssa.Alloc {
	for {
		switch x := v.(type) {
		case *ssa.Alloc:
			return x
		case *ssa.FieldAddr:
			v = x.X
		case *ssa.IndexAddr:
			if _, ok := under(x.X.Type()).(*types.Pointer); ok {
				v = x.X
			} else {
				return nil
			}
		default:
			return nil
		}
	}
}

func (vc *FuncVC) activeFrames(b *ssa.BasicBlock) []*frame {
	var fs []*frame
	fs = append(fs, vc.frames...)
	for _, l := range vc.enclosingLoops(b) {
		if l.fr != nil {
			fs = append(fs, l.fr)
		}
	}
	return fs
}

func (vc *FuncVC) frameCheckAddr(b *ssa.BasicBlock, pos token.Pos, addrV ssa.Value, addr Term, what string) {
	if !vc.withFrame {
		return
	}
	fbase := addrV
	for {
		if fa, ok := fbase.(*ssa.FieldAddr); ok {
			fbase = fa.X
			continue
		}
		break
	}
	if _, isFree := fbase.(*ssa.FreeVar); isFree {
		// a variable captured by reference (or a field of a captured struct variable) is the closure's own state; what it may become is governed by the
		// enclosing function's callback invariant, not by a frame
		return
	}
	a := vc.localAllocOf(addrV)
	var goals []Term
	for _, fr := range vc.activeFrames(b) {
		if a != nil {
			// a local cell: allocated by this function; only loop frames that started after its allocation matter
			if fr.name == "func" {
				continue
			}
			inLoop := false
			for _, l := range vc.loops {
				if l.fr == fr && l.body[a.Block()] {
					inLoop = true
				}
			}
			if inLoop {
				continue
			}
		}
		goals = append(goals, Or(Not(Select(fr.allocPre, App(SRef, "root", addr), SBool)), vc.modPred(fr.mods, addr)))
	}
	if len(goals) == 0 {
		return
	}
	vc.oblige("frame", "", "write to "+what+" is permitted by the modifies clauses (function and enclosing loops)", pos, vc.reach[b], And(goals...))
}

func (vc *FuncVC) frameCheckMods(b *ssa.BasicBlock, pos token.Pos, mods []modLoc, what string) {
	if !vc.withFrame || len(mods) == 0 {
		return
	}
	var goals []Term
	r := vc.boundVar("r", SRef)
	for _, fr := range vc.activeFrames(b) {
		goals = append(goals, Implies(And(vc.modPred(mods, r), Select(fr.allocPre, App(SRef, "root", r), SBool)), vc.modPred(fr.mods, r)))
	}
	if len(goals) == 0 {
		return
	}
	vc.oblige("frame", "", "callee "+what+" modifies only what the caller may modify", pos, vc.reach[b], Forall([]Term{r}, And(goals...)))
}

// ---------------------------------------------------------------------------------------------
// instructions

func (vc *FuncVC) nonNilValue(v ssa.Value) bool {
	switch v.(type) {
	case *ssa.Alloc, *ssa.FieldAddr, *ssa.IndexAddr, *ssa.Global, *ssa.MakeMap, *ssa.MakeClosure, *ssa.Function:
		return true
	}
	return false
}

func (vc *FuncVC) instr(b *ssa.BasicBlock, idx int, ins ssa.Instruction, st *State, defs map[string][]defPoint) {
	reach := vc.reach[b]
	tc := vc.tc
	switch x := ins.(type) {
	case *ssa.DebugRef, *ssa.Jump, *ssa.If:
		return
	case *ssa.Alloc:
		et := derefType(x.Type())
		a := vc.allocObject(st, "a_"+x.Name(), reach)
		vc.vals[x] = a
		vc.emit("(assert (= (ptype %s) %d))", a.S, vc.tc.TypeID(et))
		if containsArray(et, 0) {
			vc.emit("(assert (not (iscell %s)))", a.S)
		} else {
			vc.emit("(assert (iscell %s))", a.S)
		}
		vc.zeroInit(st, a, et)
	case *ssa.Store:
		addr := vc.val(x.Addr)
		if !vc.nonNilValue(x.Addr) {
			vc.safetyOb("nil", "store through nil pointer", x.Pos(), reach, Not(Eq(addr, Null)))
		}
		vc.frameCheckAddr(b, x.Pos(), x.Addr, addr, "*"+x.Addr.Name())
		vc.store(st, addr, vc.coerceVal(vc.val(x.Val), tc.SortOf(derefType(x.Addr.Type()))))
	case *ssa.UnOp:
		vc.unop(b, x, st)
	case *ssa.BinOp:
		vc.binop(b, x, st)
	case *ssa.FieldAddr:
		base := vc.val(x.X)
		if !vc.nonNilValue(x.X) {
			vc.safetyOb("nil", "field address of nil pointer "+x.X.Name(), x.Pos(), reach, Not(Eq(base, Null)))
		}
		vc.vals[x] = vc.define(x.Name(), vc.fldAddr(base, x.Field))
	case *ssa.Field:
		v := vc.val(x.X)
		vc.vals[x] = vc.define(x.Name(), tc.FieldSel(v, x.Field))
	case *ssa.IndexAddr:
		base := vc.val(x.X)
		i := vc.val(x.Index)
		switch t := under(x.X.Type()).(type) {
		case *types.Slice:
			vc.safetyOb("bounds", "index in range of slice "+x.X.Name(), x.Pos(), reach, And(App(SBool, "<=", IntLit(0), i), App(SBool, "<", i, App(SInt, "slen", base))))
			vc.vals[x] = vc.define(x.Name(), slElem(base, i))
		case *types.Pointer:
			at := under(t.Elem()).(*types.Array)
			if !vc.nonNilValue(x.X) {
				vc.safetyOb("nil", "index of nil array pointer", x.Pos(), reach, Not(Eq(base, Null)))
			}
			if _, isConst := x.Index.(*ssa.Const); !isConst {
				vc.safetyOb("bounds", "index in range of array", x.Pos(), reach, And(App(SBool, "<=", IntLit(0), i), App(SBool, "<", i, IntLit(at.Len()))))
			}
			vc.vals[x] = vc.define(x.Name(), vc.elemAddr(base, i))
		}
	case *ssa.Index:
		v := vc.val(x.X)
		i := vc.val(x.Index)
		switch t := under(x.X.Type()).(type) {
		case *types.Array:
			vc.safetyOb("bounds", "index in range of array", x.Pos(), reach, And(App(SBool, "<=", IntLit(0), i), App(SBool, "<", i, IntLit(t.Len()))))
			vc.vals[x] = vc.define(x.Name(), Select(v, i, tc.SortOf(t.Elem())))
		default:
			// string index
			vc.safetyOb("bounds", "index in range of string", x.Pos(), reach, And(App(SBool, "<=", IntLit(0), i), App(SBool, "<", i, App(SInt, "str.len", v))))
			r := vc.define(x.Name(), App(SInt, "str_byte", v, i))
			vc.vals[x] = r
			vc.assume(reach, And(App(SBool, "<=", IntLit(0), r), App(SBool, "<=", r, IntLit(255))))
		}
	case *ssa.Lookup:
		v := vc.val(x.X)
		k := vc.val(x.Index)
		if mt, ok := under(x.X.Type()).(*types.Map); ok {
			k = vc.coerceVal(k, tc.SortOf(mt.Key()))
			val := vc.define(x.Name(), vc.mapLookup(st, v, k, mt))
			vc.assume(reach, vc.typeFacts(val, mt.Elem(), 0))
			vc.assume(reach, vc.allocFacts(st, val, mt.Elem(), 0))
			if x.CommaOk {
				vc.tuples[x] = []Term{val, vc.define(x.Name()+"_ok", vc.mapHas(st, v, k, mt))}
			} else {
				vc.vals[x] = val
			}
		} else {
			vc.safetyOb("bounds", "index in range of string", x.Pos(), reach, And(App(SBool, "<=", IntLit(0), k), App(SBool, "<", k, App(SInt, "str.len", v))))
			vc.vals[x] = vc.define(x.Name(), App(SInt, "str_byte", v, k))
		}
	case *ssa.MapUpdate:
		m := vc.val(x.Map)
		mt := under(x.Map.Type()).(*types.Map)
		if !vc.nonNilValue(x.Map) {
			vc.safetyOb("nilmap", "assignment to entry in nil map", x.Pos(), reach, Not(Eq(m, Null)))
		}
		if vc.withFrame {
			_, isLocal := x.Map.(*ssa.MakeMap)
			var goals []Term
			for _, fr := range vc.activeFrames(b) {
				if isLocal && fr.name == "func" {
					continue // created by this function: not part of the caller-visible frame
				}
				goals = append(goals, Or(Not(Select(fr.allocPre, m, SBool)), vc.modPred(fr.mods, m)))
			}
			if len(goals) > 0 {
				vc.oblige("frame", "", "map update of "+x.Map.Name()+" is permitted by the modifies clauses (the map is fresh or listed)", x.Pos(), reach, And(goals...))
			}
		}
		vc.mapUpdate(st, m, vc.coerceVal(vc.val(x.Key), tc.SortOf(mt.Key())), vc.coerceVal(vc.val(x.Value), tc.SortOf(mt.Elem())), mt)
	case *ssa.MakeMap:
		m := vc.allocObject(st, "m_"+x.Name(), reach)
		mt := under(x.Type()).(*types.Map)
		dk, _, ks, _ := vc.mapComps(mt)
		vc.setVersion(st, dk, Store(vc.cur(st, dk), m, ConstArray(ArraySort(ks, SBool), False)))
		vc.vals[x] = m
	case *ssa.MakeSlice:
		a := vc.allocObject(st, "arr_"+x.Name(), reach)
		vc.emit("(assert (not (iscell %s)))", a.S)
		vc.emit("(assert (= (atype %s) %d))", a.S, vc.tc.TypeID(under(x.Type()).(*types.Slice).Elem()))
		ln := vc.val(x.Len)
		cp := vc.val(x.Cap)
		vc.safetyOb("makeslice", "make([]T, len, cap) with 0 <= len <= cap", x.Pos(), reach, And(App(SBool, "<=", IntLit(0), ln), App(SBool, "<=", ln, cp)))
		et := under(x.Type()).(*types.Slice).Elem()
		vc.zeroRange(st, a, et)
		vc.vals[x] = vc.define(x.Name(), App(SSlice, "mk_slice", a, IntLit(0), ln, cp))
	case *ssa.MakeInterface:
		vc.vals[x] = vc.define(x.Name(), tc.Box(x.X.Type(), vc.val(x.X)))
		// errors.Is(e, t) for an error value whose dynamic type has neither an Is nor an Unwrap method is e == t
		if plainErrorType(x.X.Type()) {
			tc.Declare("err_is", "(declare-fun err_is (Iface Iface) Bool)")
			tq := vc.boundVar("t", SIface)
			vc.assume(reach, Forall([]Term{tq}, Eq(App(SBool, "err_is", vc.vals[x], tq), Eq(tq, vc.vals[x])), App(SBool, "err_is", vc.vals[x], tq)))
		}
	case *ssa.MakeClosure:
		fnv := x.Fn.(*ssa.Function)
		id, ok := vc.funcIDs[FuncKey(fnv)]
		if !ok {
			id = len(vc.funcIDs) + 1
			vc.funcIDs[FuncKey(fnv)] = id
		}
		env := vc.allocObject(st, "clo_"+x.Name(), reach)
		vc.vals[x] = vc.define(x.Name(), App(SFn, "mk_fn", IntLit(int64(id)), env))
		for _, bnd := range x.Bindings {
			if _, ok := under(bnd.Type()).(*types.Pointer); ok {
				vc.closureCells = append(vc.closureCells, vc.val(bnd))
			}
			if pt, ok := under(bnd.Type()).(*types.Pointer); ok && isContextType(pt.Elem()) {
				vc.safetyOb("nilctx", "nil context captured by closure "+fnv.Name(), x.Pos(), reach, Not(Eq(vc.load(st, vc.val(bnd), SIface), Term{"nil_iface", SIface})))
			}
			if isContextType(bnd.Type()) {
				// the closure assumes a context it captures by value is not nil (see the parameter convention)
				vc.safetyOb("nilctx", "nil context captured by closure "+fnv.Name(), x.Pos(), reach, Not(Eq(vc.val(bnd), Term{"nil_iface", SIface})))
			}
		}
	case *ssa.ChangeInterface:
		vc.vals[x] = vc.val(x.X)
	case *ssa.ChangeType:
		vc.vals[x] = vc.coerceVal(vc.val(x.X), tc.SortOf(x.Type()))
	case *ssa.Convert:
		vc.convert(b, x)
	case *ssa.SliceToArrayPointer, *ssa.MultiConvert:
		vc.unsupportedInstr(ins)
		vc.vals[x.(ssa.Value)] = vc.freshConst("conv", tc.SortOf(x.(ssa.Value).Type()))
	case *ssa.Slice:
		vc.sliceOp(b, x, st)
	case *ssa.TypeAssert:
		v := vc.val(x.X)
		var ok, val Term
		if _, isIface := under(x.AssertedType).(*types.Interface); isIface {
			iid := tc.IfaceID(x.AssertedType)
			if it := under(x.AssertedType).(*types.Interface); it.Empty() {
				ok = Not(Eq(v, Term{"nil_iface", SIface}))
			} else {
				ok = And(Not(Eq(v, Term{"nil_iface", SIface})), App(SBool, "implements", App(SInt, "ityp", v), IntLit(int64(iid))))
			}
			val = v
		} else {
			ok = Eq(App(SInt, "ityp", v), IntLit(int64(tc.TypeID(x.AssertedType))))
			val = tc.Unbox(tc.SortOf(x.AssertedType), v)
		}
		okc := vc.define(x.Name()+"_ok", ok)
		if _, isIface := under(x.AssertedType).(*types.Interface); !isIface {
			// an interface value that holds a T is the boxing of the T it holds
			vc.assume(And(reach, okc), Eq(v, tc.Box(x.AssertedType, val)))
		}
		if x.CommaOk {
			valc := vc.define(x.Name()+"_v", Ite(okc, val, tc.Zero(val.Sort)))
			vc.tuples[x] = []Term{valc, okc}
			vc.assume(And(reach, okc), vc.allocFacts(st, valc, x.AssertedType, 0))
		} else {
			vc.safetyOb("typeassert", "single-value type assertion "+x.X.Name()+".("+typeString(x.AssertedType)+") succeeds", x.Pos(), reach, okc)
			valc := vc.define(x.Name(), val)
			vc.vals[x] = valc
			vc.assume(reach, vc.allocFacts(st, valc, x.AssertedType, 0))
		}
	case *ssa.Extract:
		ts := vc.tuples[x.Tuple]
		if x.Index < len(ts) {
			vc.vals[x] = ts[x.Index]
		} else {
			vc.errorf("extract from unknown tuple %s", x.Tuple.Name())
			vc.vals[x] = vc.freshConst("extract", tc.SortOf(x.Type()))
		}
	case *ssa.Range:
		if mt, ok := under(x.X.Type()).(*types.Map); ok {
			ks, _ := mapSorts(tc, mt)
			key := visKeyOf(x)
			vc.ensureComp(key, ArraySort(ks, SBool))
			vc.setVersion(st, key, ConstArray(ArraySort(ks, SBool), False))
		} else {
			vc.unsupportedInstr(ins)
		}
	case *ssa.Next:
		r, okr := x.Iter.(*ssa.Range)
		var mt *types.Map
		if okr {
			mt, _ = under(r.X.Type()).(*types.Map)
		}
		if mt == nil {
			vc.unsupportedInstr(ins)
			tt := x.Type().(*types.Tuple)
			var ts []Term
			for i := 0; i < tt.Len(); i++ {
				ts = append(ts, vc.freshConst("next", tc.SortOf(tt.At(i).Type())))
			}
			vc.tuples[x] = ts
			return
		}
		ks, vs := mapSorts(tc, mt)
		key := visKeyOf(r)
		vc.ensureComp(key, ArraySort(ks, SBool))
		vis := vc.cur(st, key)
		m := vc.val(r.X)
		okT := vc.freshConst(x.Name()+"_ok", SBool)
		kT := vc.freshConst(x.Name()+"_k", ks)
		dk, vk, _, _ := vc.mapComps(mt)
		dom := Select(vc.cur(st, dk), m, ArraySort(ks, SBool))
		vc.assume(reach, Implies(okT, And(Select(dom, kT, SBool), Not(Select(vis, kT, SBool)))))
		q := vc.boundVar("k", ks)
		vc.assume(reach, Implies(Not(okT), Forall([]Term{q}, Implies(Select(dom, q, SBool), Select(vis, q, SBool)))))
		vT := vc.define(x.Name()+"_v", Select(Select(vc.cur(st, vk), m, ArraySort(ks, vs)), kT, vs))
		vc.assume(And(reach, okT), vc.typeFacts(vT, mt.Elem(), 0))
		vc.assume(And(reach, okT), vc.allocFacts(st, vT, mt.Elem(), 0))
		vc.setVersion(st, key, Ite(okT, Store(vis, kT, True), vis))
		// cardinalities: each step visits one more key; when the iteration ends every key has been visited
		// (the map is not changed while it is ranged over: a delete/insert in the loop body is flagged)
		card := vc.cardFn(ks)
		vc.emit("(assert (=> %s (= (%s %s) (+ (%s %s) 1))))", And(reach, okT).S, card, vc.cur(st, key).S, card, vis.S)
		vc.emit("(assert (=> %s (= (%s %s) (%s %s))))", And(reach, Not(okT)).S, card, vis.S, card, dom.S)
		vc.tuples[x] = []Term{okT, kT, vT}
	case *ssa.Call:
		vc.call(b, idx, x, x.Common(), x, st, defs, reach)
	case *ssa.Defer:
		key := fmt.Sprintf("G:defer:%d", len(vc.defers))
		vc.defers = append(vc.defers, x)
		vc.ensureComp(key, SBool)
		vc.setVersion(st, key, True)
	case *ssa.RunDefers:
		for i := len(vc.defers) - 1; i >= 0; i-- {
			d := vc.defers[i]
			key := fmt.Sprintf("G:defer:%d", i)
			flag := vc.cur(st, key)
			if _, set := st.ver[key]; !set {
				continue // never registered on any path to here
			}
			st2 := st.clone()
			g := vc.define("deferrun", And(reach, flag))
			vc.call(b, idx, d, d.Common(), nil, st2, defs, g)
			// merge
			for _, ck := range vc.compOrder {
				a, c := vc.cur(st, ck), vc.cur(st2, ck)
				if a.S != c.S {
					vc.setVersion(st, ck, Ite(flag, c, a))
				}
			}
		}
	case *ssa.Return:
		vc.ret(b, idx, x, st, defs)
	case *ssa.Panic:
		vc.safetyOb("panic", "explicit panic is unreachable", x.Pos(), reach, False)
	case *ssa.Go, *ssa.Send, *ssa.Select, *ssa.MakeChan:
		vc.unsupportedInstr(ins)
		if v, ok := ins.(ssa.Value); ok {
			vc.vals[v] = vc.freshConst("unsup", tc.SortOf(v.Type()))
		}
	default:
		vc.unsupportedInstr(ins)
		if v, ok := ins.(ssa.Value); ok {
			vc.vals[v] = vc.freshConst("unsup", tc.SortOf(v.Type()))
		}
	}
}

func (vc *FuncVC) unsupportedInstr(ins ssa.Instruction) {
	s := fmt.Sprintf("%T at %s", ins, vc.P.Pos(ins.Pos()))
	for _, u := range vc.unsupported {
		if u == s {
			return
		}
	}
	vc.unsupported = append(vc.unsupported, s)
}

func (vc *FuncVC) safetyOb(kind, desc string, pos token.Pos, guard, goal Term) {
	vc.oblige("panic:"+kind, "", desc, pos, guard, goal)
}

func (vc *FuncVC) coerceVal(t Term, s Sort) Term {
	if t.Sort == s {
		return t
	}
	if t.Sort == SInt && s == SReal {
		return App(SReal, "to_real", t)
	}
	return Term{t.S, s}
}

func (vc *FuncVC) allocObject(st *State, hint string, reach Term) Term {
	a := vc.freshConst(hint, SRef)
	al := vc.cur(st, "alloc")
	vc.emit("(assert (and (not (= %s null)) (= (rkind %s) 0) (= (root %s) %s) (not (select %s %s))))", a.S, a.S, a.S, a.S, al.S, a.S)
	vc.setVersion(st, "alloc", Store(al, a, True))
	return a
}

func (vc *FuncVC) zeroInit(st *State, addr Term, ty types.Type) {
	s := vc.tc.SortOf(ty)
	if at, ok := under(ty).(*types.Array); ok {
		if at.Len() <= 8 {
			for i := int64(0); i < at.Len(); i++ {
				vc.zeroInit(st, vc.elemAddr(addr, IntLit(i)), at.Elem())
			}
			return
		}
		vc.zeroRange(st, addr, at.Elem())
		return
	}
	if info := vc.tc.StructInfo(s); info != nil {
		stt := under(ty).(*types.Struct)
		for i := range info.fields {
			vc.zeroInit(st, vc.fldAddr(addr, i), stt.Field(i).Type())
		}
		return
	}
	vc.store(st, addr, vc.tc.Zero(s))
}

// zeroRange: all elements of the fresh array object `arr` are zero.
func (vc *FuncVC) zeroRange(st *State, arr Term, et types.Type) {
	acc := map[Sort]bool{}
	vc.leafSorts(vc.tc.SortOf(et), acc)
	var ls []string
	for s := range acc {
		ls = append(ls, string(s))
	}
	sort.Strings(ls)
	for _, s := range ls {
		key := vc.heapComp(Sort(s))
		old := vc.cur(st, key)
		nv := vc.newVersion(st, key)
		r := vc.boundVar("r", SRef)
		vc.emit("(assert %s)", Forall([]Term{r}, Eq(Select(nv, r, Sort(s)), Ite(Eq(App(SRef, "root", r), arr), vc.tc.Zero(Sort(s)), Select(old, r, Sort(s)))), Select(nv, r, Sort(s))).S)
	}
}

func (vc *FuncVC) unop(b *ssa.BasicBlock, x *ssa.UnOp, st *State) {
	reach := vc.reach[b]
	v := vc.val(x.X)
	switch x.Op {
	case token.MUL:
		if !vc.nonNilValue(x.X) {
			vc.safetyOb("nil", "load through nil pointer "+x.X.Name(), x.Pos(), reach, Not(Eq(v, Null)))
		}
		s := vc.tc.SortOf(x.Type())
		t := vc.define(x.Name(), vc.load(st, v, s))
		vc.vals[x] = t
		vc.assume(reach, vc.typeFacts(t, x.Type(), 0))
		vc.assume(reach, vc.allocFacts(st, t, x.Type(), 0))
	case token.NOT:
		vc.vals[x] = vc.define(x.Name(), Not(v))
	case token.SUB:
		vc.vals[x] = vc.define(x.Name(), App(v.Sort, "-", v))
	case token.XOR:
		vc.vals[x] = vc.define(x.Name(), App(SInt, "bv_xor", v, IntLit(-1)))
	default:
		vc.unsupportedInstr(x)
		vc.vals[x] = vc.freshConst("unop", vc.tc.SortOf(x.Type()))
	}
}

func isNilConst(v ssa.Value) bool {
	c, ok := v.(*ssa.Const)
	return ok && c.Value == nil
}

func (vc *FuncVC) nilTest(v ssa.Value) Term {
	t := vc.val(v)
	switch t.Sort {
	case SSlice:
		return Eq(App(SRef, "sarr", t), Null)
	case SFn:
		return Eq(App(SInt, "fn_id", t), IntLit(0))
	}
	return Eq(t, vc.tc.Zero(t.Sort))
}

func (vc *FuncVC) binop(b *ssa.BasicBlock, x *ssa.BinOp, st *State) {
	reach := vc.reach[b]
	a, c := vc.val(x.X), vc.val(x.Y)
	def := func(t Term) { vc.vals[x] = vc.define(x.Name(), t) }
	_, isConstA := x.X.(*ssa.Const)
	_, isConstB := x.Y.(*ssa.Const)
	switch x.Op {
	case token.EQL, token.NEQ:
		var eq Term
		switch {
		case isNilConst(x.Y) && (a.Sort == SSlice || a.Sort == SFn):
			eq = vc.nilTest(x.X)
		case isNilConst(x.X) && (c.Sort == SSlice || c.Sort == SFn):
			eq = vc.nilTest(x.Y)
		default:
			eq = Eq(a, vc.coerceVal(c, a.Sort))
		}
		if x.Op == token.NEQ {
			eq = Not(eq)
		}
		def(eq)
		return
	case token.LSS, token.LEQ, token.GTR, token.GEQ:
		if a.Sort == SString {
			switch x.Op {
			case token.LSS:
				def(App(SBool, "str.<", a, c))
			case token.LEQ:
				def(App(SBool, "str.<=", a, c))
			case token.GTR:
				def(App(SBool, "str.<", c, a))
			default:
				def(App(SBool, "str.<=", c, a))
			}
			return
		}
		op := map[token.Token]string{token.LSS: "<", token.LEQ: "<=", token.GTR: ">", token.GEQ: ">="}[x.Op]
		def(App(SBool, op, a, c))
		return
	case token.ADD:
		if a.Sort == SString {
			def(App(SString, "str.++", a, c))
			return
		}
	}
	if a.Sort == SReal {
		op := map[token.Token]string{token.ADD: "+", token.SUB: "-", token.MUL: "*", token.QUO: "/"}[x.Op]
		if op == "" {
			vc.unsupportedInstr(x)
			vc.vals[x] = vc.freshConst("binop", SReal)
			return
		}
		def(App(SReal, op, a, c))
		return
	}
	var res Term
	arith := false
	switch x.Op {
	case token.ADD:
		res, arith = App(SInt, "+", a, c), true
	case token.SUB:
		res, arith = App(SInt, "-", a, c), true
	case token.MUL:
		res, arith = App(SInt, "*", a, c), true
	case token.QUO:
		vc.safetyOb("div0", "division by zero", x.Pos(), reach, Not(Eq(c, IntLit(0))))
		res = App(SInt, "go_div", a, c)
	case token.REM:
		vc.safetyOb("div0", "division by zero", x.Pos(), reach, Not(Eq(c, IntLit(0))))
		res = App(SInt, "go_mod", a, c)
	case token.AND:
		res = App(SInt, "bv_and", a, c)
	case token.OR:
		res = App(SInt, "bv_or", a, c)
	case token.XOR:
		res = App(SInt, "bv_xor", a, c)
	case token.SHL:
		res = App(SInt, "bv_shl", a, c)
	case token.SHR:
		res = App(SInt, "bv_shr", a, c)
	case token.AND_NOT:
		res = App(SInt, "bv_andnot", a, c)
	default:
		vc.unsupportedInstr(x)
		vc.vals[x] = vc.freshConst("binop", vc.tc.SortOf(x.Type()))
		return
	}
	t := vc.define(x.Name(), res)
	vc.vals[x] = t
	if arith && !(isConstA && isConstB) {
		if bt, ok := under(x.Type()).(*types.Basic); ok {
			if lo, hi, ok := intBounds(bt); ok && !(vc.con != nil && vc.con.NoOverflow) {
				vc.oblige("overflow", "", fmt.Sprintf("%s %s %s does not overflow %s", x.X.Name(), x.Op, x.Y.Name(), bt.Name()), x.Pos(), reach,
					And(App(SBool, "<=", BigLit(lo), t), App(SBool, "<=", t, BigLit(hi))))
			}
		}
	} else if !arith {
		vc.assume(reach, vc.typeFacts(t, x.Type(), 0))
	}
}

func (vc *FuncVC) convert(b *ssa.BasicBlock, x *ssa.Convert) {
	reach := vc.reach[b]
	v := vc.val(x.X)
	from, to := under(x.X.Type()), under(x.Type())
	ts := vc.tc.SortOf(x.Type())
	fb, fok := from.(*types.Basic)
	tb, tok := to.(*types.Basic)
	switch {
	case fok && tok && fb.Info()&types.IsInteger != 0 && tb.Info()&types.IsInteger != 0:
		flo, fhi, _ := intBounds(fb)
		tlo, thi, _ := intBounds(tb)
		if _, isConst := x.X.(*ssa.Const); !isConst && (bigLess(flo, tlo) || bigLess(thi, fhi)) && !(vc.con != nil && vc.con.NoOverflow) {
			vc.oblige("overflow", "", fmt.Sprintf("conversion %s(%s) keeps the value", tb.Name(), x.X.Name()), x.Pos(), reach,
				And(App(SBool, "<=", BigLit(tlo), v), App(SBool, "<=", v, BigLit(thi))))
		}
		vc.vals[x] = v
	case fok && tok && fb.Info()&types.IsString != 0 && tb.Info()&types.IsString != 0:
		vc.vals[x] = v
	case tok && tb.Info()&types.IsString != 0 && v.Sort == SSlice:
		vc.vals[x] = vc.define(x.Name(), App(SString, "bytes_str", v))
	case tok && tb.Info()&types.IsString != 0 && v.Sort == SInt:
		vc.vals[x] = vc.define(x.Name(), App(SString, "rune_str", v))
	case ts == SSlice && v.Sort == SString:
		// []byte(s): a fresh slice whose content is s
		r := vc.freshConst(x.Name(), SSlice)
		vc.vals[x] = r
		vc.assume(reach, And(vc.sliceWF(r), Eq(App(SString, "bytes_str", r), v), Eq(App(SInt, "slen", r), App(SInt, "str.len", v)),
			Eq(App(SInt, "soff", r), IntLit(0))))
		vc.note("[]byte(string) result: fresh-ness of the backing array is not modelled (byte contents are values of the slice)")
	case v.Sort == SInt && ts == SReal:
		vc.vals[x] = vc.define(x.Name(), App(SReal, "to_real", v))
	case v.Sort == SReal && ts == SInt:
		vc.vals[x] = vc.define(x.Name(), App(SInt, "to_int", v))
	case v.Sort == ts:
		vc.vals[x] = v
	default:
		vc.unsupportedInstr(x)
		vc.vals[x] = vc.freshConst("conv", ts)
	}
}

func bigLess(a, b string) bool {
	// compares decimal integer strings a < b
	na, nb := strings.HasPrefix(a, "-"), strings.HasPrefix(b, "-")
	if na != nb {
		return na
	}
	if na {
		return bigLess(b[1:], a[1:])
	}
	if len(a) != len(b) {
		return len(a) < len(b)
	}
	return a < b
}

func (vc *FuncVC) sliceOp(b *ssa.BasicBlock, x *ssa.Slice, st *State) {
	reach := vc.reach[b]
	v := vc.val(x.X)
	lo := IntLit(0)
	if x.Low != nil {
		lo = vc.val(x.Low)
	}
	switch t := under(x.X.Type()).(type) {
	case *types.Basic: // string
		hi := App(SInt, "str.len", v)
		if x.High != nil {
			hi = vc.val(x.High)
		}
		if x.Low != nil || x.High != nil {
			vc.safetyOb("bounds", "string slice bounds 0 <= lo <= hi <= len", x.Pos(), reach,
				And(App(SBool, "<=", IntLit(0), lo), App(SBool, "<=", lo, hi), App(SBool, "<=", hi, App(SInt, "str.len", v))))
		}
		vc.vals[x] = vc.define(x.Name(), App(SString, "str.substr", v, lo, App(SInt, "-", hi, lo)))
	case *types.Slice:
		hi := App(SInt, "slen", v)
		if x.High != nil {
			hi = vc.val(x.High)
		}
		mx := App(SInt, "scap", v)
		if x.Max != nil {
			mx = vc.val(x.Max)
		}
		if x.Low != nil || x.High != nil || x.Max != nil {
			vc.safetyOb("bounds", "slice bounds 0 <= lo <= hi <= max <= cap", x.Pos(), reach,
				And(App(SBool, "<=", IntLit(0), lo), App(SBool, "<=", lo, hi), App(SBool, "<=", hi, mx), App(SBool, "<=", mx, App(SInt, "scap", v))))
		}
		vc.vals[x] = vc.define(x.Name(), App(SSlice, "mk_slice", App(SRef, "sarr", v), App(SInt, "+", App(SInt, "soff", v), lo),
			App(SInt, "-", hi, lo), App(SInt, "-", mx, lo)))
	case *types.Pointer:
		at := under(t.Elem()).(*types.Array)
		n := IntLit(at.Len())
		hi := n
		if x.High != nil {
			hi = vc.val(x.High)
		}
		if x.Low != nil || x.High != nil {
			vc.safetyOb("bounds", "array slice bounds", x.Pos(), reach,
				And(App(SBool, "<=", IntLit(0), lo), App(SBool, "<=", lo, hi), App(SBool, "<=", hi, n)))
		}
		// the array object is the backing array; interior pointers keep root
		vc.vals[x] = vc.define(x.Name(), App(SSlice, "mk_slice", v, lo, App(SInt, "-", hi, lo), App(SInt, "-", n, lo)))
		if bt, ok := under(at.Elem()).(*types.Basic); ok && bt.Kind() == types.Uint8 && x.Low == nil && x.High == nil {
			// the bytes of the full slice are the bytes of the array it was cut from
			key := vc.heapComp(SInt)
			vc.assume(reach, Eq(App(SString, "bytes_str", vc.vals[x]), App(SString, "arr_str", App(ArraySort(SInt, SInt), vc.arrloadFn(SInt), vc.cur(st, key), v))))
		}
		vc.note("slice of array pointer: backing array is the pointer itself (rkind may be interior)")
	default:
		vc.unsupportedInstr(x)
		vc.vals[x] = vc.freshConst("slice", vc.tc.SortOf(x.Type()))
	}
}

// ---------------------------------------------------------------------------------------------
// return

func (vc *FuncVC) resultVars(results []Term, rtypes *types.Tuple) map[string]SVal {
	m := map[string]SVal{}
	for i, t := range results {
		var ty types.Type
		if rtypes != nil && i < rtypes.Len() {
			ty = rtypes.At(i).Type()
			if n := rtypes.At(i).Name(); n != "" && n != "_" {
				m[n] = SVal{t, ty}
			}
		}
		m[fmt.Sprintf("result%d", i)] = SVal{t, ty}
		if i == 0 {
			m["result"] = SVal{t, ty}
		}
	}
	return m
}

func (vc *FuncVC) ret(b *ssa.BasicBlock, idx int, x *ssa.Return, st *State, defs map[string][]defPoint) {
	vc.retN++
	if vc.con == nil {
		return
	}
	var res []Term
	for _, r := range x.Results {
		res = append(res, vc.val(r))
	}
	extra := vc.resultVars(res, vc.fn.Signature.Results())
	// in postconditions a parameter name means the value the function was called with
	for _, p := range vc.fn.Params {
		if _, clash := extra[p.Name()]; !clash {
			extra[p.Name()] = SVal{vc.val(p), p.Type()}
		}
	}
	for i, n := range vc.con.ResultNames {
		if i < len(res) {
			extra[n] = SVal{res[i], vc.fn.Signature.Results().At(i).Type()}
		}
	}
	env := &Env{vc: vc, st: st, old: vc.entry, vars: map[string]SVal{}}
	env.lookup = vc.resolver(defs, b, idx, st, nil, extra)
	for _, en := range vc.con.Ensures {
		env.ctx = en.Ctx
		t, err := env.Bool(en.Expr)
		if err != nil {
			vc.errorf("%s: ensures: %v", en.Where, err)
			continue
		}
		lab := en.Label
		if lab == "" {
			lab = "post"
		}
		kind := fmt.Sprintf("post:%s@ret%d", lab, vc.retN)
		vc.oblige(kind, en.Label, "postcondition at return site "+fmt.Sprint(vc.retN)+": "+en.Raw, x.Pos(), vc.reach[b], t)
	}
	if cb := vc.callbackSpec(); cb != nil && len(res) > 0 {
		cenv := *env
		cenv.vars = map[string]SVal{"cb_err": {res[len(res)-1], types.Universe.Lookup("error").Type()}}
		for _, inv := range cb.Invariants {
			cenv.ctx = inv.Ctx
			t, err := cenv.Bool(inv.Expr)
			if err != nil {
				vc.errorf("%s: callback invariant (closure return): %v", inv.Where, err)
				continue
			}
			vc.oblige(fmt.Sprintf("cb-inv-keep@ret%d", vc.retN), inv.Label, "callback invariant is re-established by the closure at return site "+fmt.Sprint(vc.retN)+": "+inv.Raw, x.Pos(), vc.reach[b], t)
		}
	}
	for _, en := range vc.con.LocalEnsures {
		env.ctx = en.Ctx
		call, ok := en.Expr.(*ast.CallExpr)
		if fn, _ := identName(call.Fun); !ok || fn != "implies" || len(call.Args) != 2 {
			vc.errorf("%s: ensures-local must have the form A ==> B", en.Where)
			continue
		}
		a, err := env.Bool(call.Args[0])
		if err != nil {
			vc.errorf("%s: ensures-local antecedent: %v", en.Where, err)
			continue
		}
		kind := fmt.Sprintf("post:%s@ret%d", en.Label, vc.retN)
		bterm, err := env.Bool(call.Args[1])
		if err != nil {
			// locals of the consequent are not in scope at this return: the antecedent must be false here
			if o := vc.oblige(kind, en.Label, "return site "+fmt.Sprint(vc.retN)+" is outside the scope of the clause's locals, so its antecedent is false here: "+en.Raw, x.Pos(), vc.reach[b], Not(a)); o != nil {
				o.LocalPost = true
			}
			continue
		}
		if o := vc.oblige(kind, en.Label, "postcondition (with locals) at return site "+fmt.Sprint(vc.retN)+": "+en.Raw, x.Pos(), vc.reach[b], Implies(a, bterm)); o != nil {
			o.LocalPost = true
		}
	}
}

// autoRangeIndex adds the invariant -1 <= rangeindex && (rangeindex == -1 || rangeindex < len) for the
// index phi of a `for range slice` loop, after checking the exact shape go/ssa lowers such loops to
// (phi starts at -1, every back edge carries phi+1, the head tests phi+1 < L with L defined outside).
func (vc *FuncVC) autoRangeIndex(l *loopInfo, b *ssa.BasicBlock, reach Term) {
	for _, ins := range b.Instrs {
		phi, ok := ins.(*ssa.Phi)
		if !ok {
			break
		}
		if phi.Comment != "rangeindex" {
			continue
		}
		var inc *ssa.BinOp
		okShape := true
		for i, p := range b.Preds {
			e := phi.Edges[i]
			if b.Dominates(p) {
				bo, ok := e.(*ssa.BinOp)
				if !ok || bo.Op != token.ADD || bo.X != phi {
					okShape = false
					break
				}
				if c, ok := bo.Y.(*ssa.Const); !ok || c.Int64() != 1 {
					okShape = false
					break
				}
				if inc != nil && inc != bo {
					okShape = false
					break
				}
				inc = bo
			} else {
				if c, ok := e.(*ssa.Const); !ok || c.Int64() != -1 {
					okShape = false
					break
				}
			}
		}
		if !okShape || inc == nil || inc.Block() != b {
			continue
		}
		iff, ok := b.Instrs[len(b.Instrs)-1].(*ssa.If)
		if !ok {
			continue
		}
		cmp, ok := iff.Cond.(*ssa.BinOp)
		if !ok || cmp.Op != token.LSS || cmp.X != inc {
			continue
		}
		if li, ok := cmp.Y.(ssa.Instruction); ok && l.body[li.Block()] {
			continue
		}
		if !l.body[b.Succs[0]] || l.body[b.Succs[1]] {
			continue
		}
		p := vc.val(phi)
		L := vc.val(cmp.Y)
		vc.assume(reach, And(App(SBool, "<=", IntLit(-1), p), Or(Eq(p, IntLit(-1)), App(SBool, "<", p, L))))
	}
}

func (vc *FuncVC) mentionsDryGlobal(gi *Clause) bool {
	if gi.Ctx == nil || gi.Ctx.Pkg == nil {
		return true
	}
	found := false
	ast.Inspect(gi.Expr, func(n ast.Node) bool {
		switch x := n.(type) {
		case *ast.Ident:
			if v, ok := gi.Ctx.Pkg.Scope().Lookup(x.Name).(*types.Var); ok {
				if vc.dryGlobals["g_"+mangle(v.Pkg().Path()+"."+v.Name())] {
					found = true
				}
			}
		case *ast.SelectorExpr:
			if id, ok := x.X.(*ast.Ident); ok {
				if ip := gi.Ctx.Imports[id.Name]; ip != nil {
					if v, ok := ip.Scope().Lookup(x.Sel.Name).(*types.Var); ok {
						if vc.dryGlobals["g_"+mangle(v.Pkg().Path()+"."+v.Name())] {
							found = true
						}
					}
				}
			}
		}
		return true
	})
	return found
}

// assumeAxioms adds the assumed axioms that speak about ghost functions this VC has declared.
func (vc *FuncVC) assumeAxioms(entryEnv *Env) {
	if vc.dry {
		return
	}
	for _, ax := range vc.S.Axioms {
		relevant := vc.fn == nil
		ast.Inspect(ax.Expr, func(n ast.Node) bool {
			if id, ok := n.(*ast.Ident); ok && vc.tc.extra["gh_"+id.Name] {
				relevant = true
			}
			return true
		})
		if !relevant {
			continue
		}
		e := *entryEnv
		e.ctx = ax.Ctx
		e.lookup = nil
		t, err := e.Bool(ax.Expr)
		if err != nil {
			vc.errorf("%s: axiom: %v", ax.Where, err)
			continue
		}
		vc.assume(True, t)
		vc.assumed["axiom "+ax.Label+": "+ax.Raw] = true
	}
}

// callbackSpec returns the callback invariant that the enclosing function's contract attaches to this closure.
func (vc *FuncVC) callbackSpec() *LoopSpec {
	if vc.fn == nil || vc.fn.Parent() == nil {
		return nil
	}
	pc := vc.S.Contracts[FuncKey(vc.fn.Parent())]
	if pc == nil || pc.Callback == nil {
		return nil
	}
	return pc.Callback[closureOrdinal(vc.fn)]
}

func containsArray(t types.Type, depth int) bool {
	if depth > 3 {
		return true
	}
	switch u := under(t).(type) {
	case *types.Array:
		return true
	case *types.Struct:
		for i := 0; i < u.NumFields(); i++ {
			if containsArray(u.Field(i).Type(), depth+1) {
				return true
			}
		}
	}
	return false
}

// deadReturnOK: the contract declares that a return passing on an error produced by a given callee may be dead
// code (e.g. a second validation that can never fail after the first), so its vacuity guard is not generated.
func (vc *FuncVC) deadReturnOK(r *ssa.Return) bool {
	if vc.con == nil || len(vc.con.DeadReturns) == 0 {
		return false
	}
	for _, res := range r.Results {
		v := res
		if ex, ok := v.(*ssa.Extract); ok {
			v = ex.Tuple
		}
		if call, ok := v.(*ssa.Call); ok {
			key, _ := vc.calleeContract(call.Common())
			for _, d := range vc.con.DeadReturns {
				if key == d || strings.HasSuffix(key, "."+d) {
					return true
				}
			}
		}
	}
	return false
}

// rangedSlice returns the slice a `for range` loop iterates over (from the len() its head compares with).
func rangedSlice(l *loopInfo) ssa.Value {
	b := l.head
	if len(b.Instrs) == 0 {
		return nil
	}
	iff, ok := b.Instrs[len(b.Instrs)-1].(*ssa.If)
	if !ok {
		return nil
	}
	cmp, ok := iff.Cond.(*ssa.BinOp)
	if !ok || cmp.Op != token.LSS {
		return nil
	}
	call, ok := cmp.Y.(*ssa.Call)
	if !ok {
		return nil
	}
	if bi, ok := call.Call.Value.(*ssa.Builtin); ok && bi.Name() == "len" && len(call.Call.Args) == 1 {
		if _, isSlice := under(call.Call.Args[0].Type()).(*types.Slice); isSlice {
			return call.Call.Args[0]
		}
	}
	return nil
}

// errorsNewTypeID is the reserved dynamic-type id of values made by errors.New (*errors.errorString).
const errorsNewTypeID = 999001

// plainErrorType: a concrete type with an Error method and neither Is nor Unwrap in its method set.
func plainErrorType(t types.Type) bool {
	if _, isIface := under(t).(*types.Interface); isIface {
		return false
	}
	ms := types.NewMethodSet(t)
	if ms.Lookup(nil, "Error") == nil {
		hasErr := false
		for i := 0; i < ms.Len(); i++ {
			if ms.At(i).Obj().Name() == "Error" {
				hasErr = true
			}
		}
		if !hasErr {
			return false
		}
	}
	for i := 0; i < ms.Len(); i++ {
		if n := ms.At(i).Obj().Name(); n == "Is" || n == "Unwrap" {
			return false
		}
	}
	return true
}

func isContextType(t types.Type) bool {
	n, ok := t.(*types.Named)
	return ok && n.Obj().Pkg() != nil && n.Obj().Pkg().Path() == "context" && n.Obj().Name() == "Context"
}
