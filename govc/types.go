package main

import (
	"fmt"
	"go/types"
	"sort"
	"strings"
)

// TypeCtx maps Go types to SMT sorts and owns the on-demand declarations (struct datatypes,
// boxing functions, type ids). One per query family (function encoding).
type TypeCtx struct {
	structSort map[string]Sort // canonical struct string -> sort
	structInfo map[Sort]*structInfo
	structDecl []string // datatype declarations in dependency order
	typeIDs    map[string]int
	typeByID   []types.Type
	boxed      map[Sort]bool
	boxDecls   []string
	extra      map[string]bool // misc declared symbols
	extraDecls []string
	ifaceIDs   map[string]int
	ifaceTypes []*types.Interface
}

type structInfo struct {
	sort   Sort
	st     *types.Struct
	fields []Sort
	name   string
}

func NewTypeCtx() *TypeCtx {
	return &TypeCtx{structSort: map[string]Sort{}, structInfo: map[Sort]*structInfo{}, typeIDs: map[string]int{},
		boxed: map[Sort]bool{}, extra: map[string]bool{}, ifaceIDs: map[string]int{}}
}

func qualFull(p *types.Package) string { return p.Path() }

func typeString(t types.Type) string { return types.TypeString(t, qualFull) }

// canonical string of a struct ignoring tags
func structKey(st *types.Struct) string {
	var b strings.Builder
	b.WriteString("struct{")
	for i := 0; i < st.NumFields(); i++ {
		f := st.Field(i)
		if i > 0 {
			b.WriteString("; ")
		}
		if f.Embedded() {
			b.WriteString("!")
		}
		pk := ""
		if f.Pkg() != nil && !f.Exported() {
			pk = f.Pkg().Path() + "."
		}
		b.WriteString(pk + f.Name() + " " + typeString(f.Type()))
	}
	b.WriteString("}")
	return b.String()
}

func (tc *TypeCtx) SortOf(t types.Type) Sort {
	switch u := types.Unalias(t).(type) {
	case *types.Named:
		if st, ok := u.Underlying().(*types.Struct); ok {
			return tc.structSortOf(st, u.Obj().Name())
		}
		return tc.SortOf(u.Underlying())
	case *types.Basic:
		switch {
		case u.Info()&types.IsBoolean != 0:
			return SBool
		case u.Info()&types.IsInteger != 0:
			return SInt
		case u.Info()&types.IsString != 0:
			return SString
		case u.Info()&types.IsFloat != 0:
			return SReal
		case u.Kind() == types.UnsafePointer:
			return SRef
		case u.Kind() == types.UntypedNil:
			return SRef
		}
		return SInt
	case *types.Pointer, *types.Map, *types.Chan:
		return SRef
	case *types.Slice:
		return SSlice
	case *types.Interface:
		return SIface
	case *types.Signature:
		return SFn
	case *types.Struct:
		return tc.structSortOf(u, "anon")
	case *types.Array:
		return ArraySort(SInt, tc.SortOf(u.Elem()))
	case *types.Tuple:
		return Sort("Tuple")
	case *types.TypeParam:
		return SIface
	}
	return SInt
}

func (tc *TypeCtx) structSortOf(st *types.Struct, hint string) Sort {
	key := structKey(st)
	if s, ok := tc.structSort[key]; ok {
		return s
	}
	name := fmt.Sprintf("S%d_%s", len(tc.structSort), mangle(hint))
	s := Sort(name)
	tc.structSort[key] = s
	info := &structInfo{sort: s, st: st, name: name}
	tc.structInfo[s] = info
	for i := 0; i < st.NumFields(); i++ {
		info.fields = append(info.fields, tc.SortOf(st.Field(i).Type()))
	}
	var b strings.Builder
	fmt.Fprintf(&b, "(declare-datatypes ((%s 0)) (((mk_%s", name, name)
	for i, fs := range info.fields {
		fmt.Fprintf(&b, " (%s_f%d %s)", name, i, fs)
	}
	b.WriteString("))))")
	tc.structDecl = append(tc.structDecl, b.String())
	return s
}

func (tc *TypeCtx) StructInfo(s Sort) *structInfo { return tc.structInfo[s] }

// FieldSel builds the selector term on a struct value.
func (tc *TypeCtx) FieldSel(v Term, i int) Term {
	info := tc.structInfo[v.Sort]
	return App(info.fields[i], fmt.Sprintf("%s_f%d", info.name, i), v)
}

func (tc *TypeCtx) MkStruct(s Sort, fields []Term) Term {
	info := tc.structInfo[s]
	if len(fields) == 0 {
		return Term{"mk_" + info.name, s}
	}
	return App(s, "mk_"+info.name, fields...)
}

// Zero value of a sort.
func (tc *TypeCtx) Zero(s Sort) Term {
	switch s {
	case SInt:
		return IntLit(0)
	case SBool:
		return False
	case SString:
		return StrLit("")
	case SRef:
		return Null
	case SSlice:
		return Term{"nil_slice", SSlice}
	case SIface:
		return Term{"nil_iface", SIface}
	case SFn:
		return Term{"nil_fn", SFn}
	case SReal:
		return Term{"0.0", SReal}
	}
	if info, ok := tc.structInfo[s]; ok {
		var fs []Term
		for _, f := range info.fields {
			fs = append(fs, tc.Zero(f))
		}
		return tc.MkStruct(s, fs)
	}
	if strings.HasPrefix(string(s), "(Array ") {
		// (Array I E): constant array of zero
		_, e := splitArraySort(s)
		return ConstArray(s, tc.Zero(e))
	}
	return Term{"zero_" + mangle(string(s)), s}
}

func splitArraySort(s Sort) (Sort, Sort) {
	// "(Array I E)" with possibly nested parens
	body := strings.TrimSuffix(strings.TrimPrefix(string(s), "(Array "), ")")
	depth := 0
	for i := 0; i < len(body); i++ {
		switch body[i] {
		case '(':
			depth++
		case ')':
			depth--
		case ' ':
			if depth == 0 {
				return Sort(body[:i]), Sort(body[i+1:])
			}
		}
	}
	return SInt, SInt
}

// TypeID gives a positive integer identifying a concrete dynamic type inside interfaces.
func (tc *TypeCtx) TypeID(t types.Type) int {
	k := typeString(t)
	if id, ok := tc.typeIDs[k]; ok {
		return id
	}
	id := len(tc.typeIDs) + 1
	tc.typeIDs[k] = id
	tc.typeByID = append(tc.typeByID, t)
	return id
}

func (tc *TypeCtx) IfaceID(t types.Type) int {
	k := typeString(t)
	if id, ok := tc.ifaceIDs[k]; ok {
		return id
	}
	id := len(tc.ifaceIDs) + 1
	tc.ifaceIDs[k] = id
	if it, ok := t.Underlying().(*types.Interface); ok {
		tc.ifaceTypes = append(tc.ifaceTypes, it)
	} else {
		tc.ifaceTypes = append(tc.ifaceTypes, nil)
	}
	return id
}

// Box / Unbox between a sort and the interface payload (Int).
func (tc *TypeCtx) ensureBox(s Sort) string {
	m := mangle(string(s))
	if !tc.boxed[s] {
		tc.boxed[s] = true
		if s != SInt {
			tc.boxDecls = append(tc.boxDecls,
				fmt.Sprintf("(declare-fun inj_%s (%s) Int)", m, s),
				fmt.Sprintf("(declare-fun prj_%s (Int) %s)", m, s),
				fmt.Sprintf("(assert (forall ((x %s)) (! (= (prj_%s (inj_%s x)) x) :pattern ((inj_%s x)))))", s, m, m, m))
		}
	}
	return m
}

func (tc *TypeCtx) Box(t types.Type, v Term) Term {
	t = types.Default(t) // an untyped constant is boxed with its default type
	id := tc.TypeID(t)
	m := tc.ensureBox(v.Sort)
	payload := v
	if v.Sort != SInt {
		payload = App(SInt, "inj_"+m, v)
	}
	return App(SIface, "mk_iface", IntLit(int64(id)), payload)
}

func (tc *TypeCtx) Unbox(s Sort, iface Term) Term {
	m := tc.ensureBox(s)
	p := App(SInt, "ival", iface)
	if s == SInt {
		return p
	}
	return App(s, "prj_"+m, p)
}

// Declare registers a raw declaration once (keyed by sym).
func (tc *TypeCtx) Declare(sym, decl string) {
	if tc.extra[sym] {
		return
	}
	tc.extra[sym] = true
	tc.extraDecls = append(tc.extraDecls, decl)
}

// implements axioms: for every (concrete type id, interface id) pair known, state implements().
func (tc *TypeCtx) implementsAxioms() []string {
	var out []string
	if len(tc.ifaceIDs) == 0 {
		return nil
	}
	var iks []string
	for k := range tc.ifaceIDs {
		iks = append(iks, k)
	}
	sort.Strings(iks)
	for _, ik := range iks {
		iid := tc.ifaceIDs[ik]
		it := tc.ifaceTypes[iid-1]
		if it == nil {
			continue
		}
		for i, ct := range tc.typeByID {
			v := types.Implements(ct, it)
			out = append(out, fmt.Sprintf("(assert (= (implements %d %d) %v))", i+1, iid, v))
		}
	}
	return out
}

const prelude = `(set-option :smt.mbqi true)
(declare-sort Ref 0)
(declare-const null Ref)
(declare-fun fld (Ref Int) Ref)
(declare-fun fld_base (Ref) Ref)
(declare-fun fld_idx (Ref) Int)
(declare-fun elem (Ref Int) Ref)
(declare-fun elem_base (Ref) Ref)
(declare-fun elem_idx (Ref) Int)
(declare-fun rkind (Ref) Int)
(declare-fun root (Ref) Ref)
(assert (forall ((r Ref) (k Int)) (! (and (= (fld_base (fld r k)) r) (= (fld_idx (fld r k)) k) (= (rkind (fld r k)) 1) (= (root (fld r k)) (root r))) :pattern ((fld r k)))))
(assert (forall ((r Ref) (i Int)) (! (and (= (elem_base (elem r i)) r) (= (elem_idx (elem r i)) i) (= (rkind (elem r i)) 2) (= (root (elem r i)) (root r))) :pattern ((elem r i)))))
(declare-fun eroot (Ref) Ref)
(assert (forall ((r Ref) (k Int)) (! (= (eroot (fld r k)) (eroot r)) :pattern ((fld r k)))))
(assert (forall ((r Ref) (i Int)) (! (= (eroot (elem r i)) (elem r i)) :pattern ((elem r i)))))
(assert (forall ((r Ref)) (! (=> (= (rkind r) 2) (= r (elem (elem_base r) (elem_idx r)))) :pattern ((elem_base r)))))
(assert (forall ((r Ref)) (! (=> (= (rkind r) 1) (= r (fld (fld_base r) (fld_idx r)))) :pattern ((fld_base r)))))
(assert (= (rkind null) 0))
(assert (= (root null) null))
(declare-datatypes ((Slice 0)) (((mk_slice (sarr Ref) (soff Int) (slen Int) (scap Int)))))
(define-fun nil_slice () Slice (mk_slice null 0 0 0))
(declare-fun sl_elem (Slice Int) Ref)
(assert (forall ((s Slice) (i Int)) (! (= (sl_elem s i) (elem (sarr s) (+ (soff s) i))) :pattern ((sl_elem s i)))))
(declare-datatypes ((Iface 0)) (((mk_iface (ityp Int) (ival Int)))))
(define-fun nil_iface () Iface (mk_iface 0 0))
(declare-datatypes ((Fn 0)) (((mk_fn (fn_id Int) (fn_env Ref)))))
(define-fun nil_fn () Fn (mk_fn 0 null))
(declare-fun iscell (Ref) Bool)
(declare-fun atype (Ref) Int)
(declare-fun ptype (Ref) Int)
(declare-fun implements (Int Int) Bool)
(declare-fun bv_and (Int Int) Int)
(declare-fun bv_or (Int Int) Int)
(declare-fun bv_xor (Int Int) Int)
(declare-fun bv_shl (Int Int) Int)
(declare-fun bv_shr (Int Int) Int)
(declare-fun bv_andnot (Int Int) Int)
(declare-fun bytes_str (Slice) String)
(assert (forall ((s Slice)) (! (=> (>= (slen s) 0) (= (str.len (bytes_str s)) (slen s))) :pattern ((bytes_str s)))))
(declare-fun arr_str ((Array Int Int)) String)
(declare-fun str_byte (String Int) Int)
(declare-fun rune_str (Int) String)
(define-fun go_div ((a Int) (b Int)) Int (ite (>= a 0) (ite (> b 0) (div a b) (- (div a (- b)))) (ite (> b 0) (- (div (- a) b)) (div (- a) (- b)))))
(define-fun go_mod ((a Int) (b Int)) Int (- a (* b (go_div a b))))
`

func slElem(s, i Term) Term { return App(SRef, "sl_elem", s, i) }
