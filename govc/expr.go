package main

import (
	"fmt"
	"go/ast"
	"go/constant"
	"go/token"
	"go/types"
	"strconv"
	"strings"
)

// SVal is a typed spec value.
type SVal struct {
	T  Term
	Ty types.Type // may be nil (ghost sort only)
}

// Env is the evaluation context of a spec expression.
type Env struct {
	vc        *FuncVC
	st        *State
	old       *State
	vars      map[string]SVal
	lookup    func(name string, st *State) (SVal, bool)
	ctx       *PkgCtx
	visKey    string          // state component of the map-range visited set for `visited(k)`
	loopAlloc Term            // alloc array at the start of the enclosing loop (for newsince)
	inQuant   bool            // inside a quantifier body: loaded terms mention bound variables
	loopEntry *Env            // environment of the enclosing loop entry (pre-state, loop variables at entry values)
	ranged    *SVal           // the slice the enclosing `for range` loop iterates over
	params    map[string]SVal // argument bindings when a callee contract is evaluated at a call site
	depth     int
	rebinding bool
}

func (e *Env) child() *Env {
	n := *e
	n.vars = map[string]SVal{}
	for k, v := range e.vars {
		n.vars[k] = v
	}
	return &n
}

func (e *Env) errf(x ast.Node, f string, a ...any) error {
	return fmt.Errorf("spec expr: "+f, a...)
}

func (e *Env) Bool(x ast.Expr) (Term, error) {
	v, err := e.Eval(x)
	if err != nil {
		return Term{}, err
	}
	if v.T.Sort != SBool {
		return Term{}, fmt.Errorf("spec expr: expected Bool, got %s in %s", v.T.Sort, exprString(x))
	}
	return v.T, nil
}

func exprString(x ast.Expr) string {
	return types.ExprString(x)
}

var untypedInt = types.Typ[types.UntypedInt]

func (e *Env) Eval(x ast.Expr) (SVal, error) {
	vc := e.vc
	switch n := x.(type) {
	case *ast.ParenExpr:
		return e.Eval(n.X)
	case *ast.BasicLit:
		switch n.Kind {
		case token.INT:
			v := constant.MakeFromLiteral(n.Value, token.INT, 0)
			return SVal{BigLit(v.ExactString()), untypedInt}, nil
		case token.STRING:
			s, err := strconv.Unquote(n.Value)
			if err != nil {
				return SVal{}, err
			}
			return SVal{StrLit(s), types.Typ[types.String]}, nil
		case token.CHAR:
			s, _, _, err := strconv.UnquoteChar(n.Value[1:len(n.Value)-1], '\'')
			if err != nil {
				return SVal{}, err
			}
			return SVal{IntLit(int64(s)), untypedInt}, nil
		}
		return SVal{}, e.errf(x, "unsupported literal %s", n.Value)
	case *ast.Ident:
		return e.evalIdent(n.Name)
	case *ast.SelectorExpr:
		return e.evalSelector(n)
	case *ast.IndexExpr:
		return e.evalIndex(n)
	case *ast.StarExpr:
		v, err := e.Eval(n.X)
		if err != nil {
			return SVal{}, err
		}
		pt, ok := under(v.Ty).(*types.Pointer)
		if !ok {
			return SVal{}, e.errf(x, "deref of non-pointer %s", exprString(n.X))
		}
		return SVal{vc.load(e.st, v.T, vc.tc.SortOf(pt.Elem())), pt.Elem()}, nil
	case *ast.UnaryExpr:
		switch n.Op {
		case token.NOT:
			b, err := e.Bool(n.X)
			if err != nil {
				return SVal{}, err
			}
			return SVal{Not(b), types.Typ[types.Bool]}, nil
		case token.SUB:
			v, err := e.Eval(n.X)
			if err != nil {
				return SVal{}, err
			}
			return SVal{App(SInt, "-", v.T), v.Ty}, nil
		case token.AND:
			a, ty, err := e.Addr(n.X)
			if err != nil {
				return SVal{}, err
			}
			return SVal{a, types.NewPointer(ty)}, nil
		}
		return SVal{}, e.errf(x, "unsupported unary %s", n.Op)
	case *ast.BinaryExpr:
		return e.evalBinary(n)
	case *ast.CallExpr:
		return e.evalCall(n)
	case *ast.TypeAssertExpr:
		v, err := e.Eval(n.X)
		if err != nil {
			return SVal{}, err
		}
		ty, err := resolveTypeExpr(e.ctx, n.Type)
		if err != nil {
			return SVal{}, err
		}
		return SVal{vc.tc.Unbox(vc.tc.SortOf(ty), v.T), ty}, nil
	case *ast.CompositeLit:
		ty, err := resolveTypeExpr(e.ctx, n.Type)
		if err != nil {
			return SVal{}, err
		}
		st, ok := under(ty).(*types.Struct)
		if !ok {
			return SVal{}, e.errf(x, "composite literal of non-struct type")
		}
		srt := vc.tc.SortOf(ty)
		fields := make([]Term, st.NumFields())
		for i := range fields {
			fields[i] = vc.tc.Zero(vc.tc.SortOf(st.Field(i).Type()))
		}
		for _, el := range n.Elts {
			kv, ok := el.(*ast.KeyValueExpr)
			if !ok {
				return SVal{}, e.errf(x, "composite literal needs key: value elements")
			}
			kn, _ := identName(kv.Key)
			found := false
			for i := 0; i < st.NumFields(); i++ {
				if st.Field(i).Name() == kn {
					v, err := e.Eval(kv.Value)
					if err != nil {
						return SVal{}, err
					}
					v = e.coerce(v, st.Field(i).Type())
					fields[i] = v.T
					found = true
				}
			}
			if !found {
				return SVal{}, e.errf(x, "no field %s", kn)
			}
		}
		return SVal{vc.tc.MkStruct(srt, fields), ty}, nil
	case *ast.SliceExpr:
		v, err := e.Eval(n.X)
		if err != nil {
			return SVal{}, err
		}
		var lo, hi Term
		lo = IntLit(0)
		if n.Low != nil {
			l, err := e.Eval(n.Low)
			if err != nil {
				return SVal{}, err
			}
			lo = l.T
		}
		if v.T.Sort == SString {
			hi = App(SInt, "str.len", v.T)
		} else {
			hi = App(SInt, "slen", v.T)
		}
		if n.High != nil {
			h, err := e.Eval(n.High)
			if err != nil {
				return SVal{}, err
			}
			hi = h.T
		}
		if v.T.Sort == SString {
			return SVal{App(SString, "str.substr", v.T, lo, App(SInt, "-", hi, lo)), v.Ty}, nil
		}
		if v.T.Sort == SSlice {
			return SVal{App(SSlice, "mk_slice", App(SRef, "sarr", v.T), App(SInt, "+", App(SInt, "soff", v.T), lo),
				App(SInt, "-", hi, lo), App(SInt, "-", App(SInt, "scap", v.T), lo)), v.Ty}, nil
		}
	}
	return SVal{}, e.errf(x, "unsupported expression %s (%T)", exprString(x), x)
}

func under(t types.Type) types.Type {
	if t == nil {
		return nil
	}
	return t.Underlying()
}

func (e *Env) evalIdent(name string) (SVal, error) {
	if v, ok := e.vars[name]; ok {
		return v, nil
	}
	switch name {
	case "true":
		return SVal{True, types.Typ[types.Bool]}, nil
	case "false":
		return SVal{False, types.Typ[types.Bool]}, nil
	case "nil":
		return SVal{Term{"nil", "Nil"}, types.Typ[types.UntypedNil]}, nil
	}
	if e.lookup != nil {
		if v, ok := e.lookup(name, e.st); ok {
			return v, nil
		}
	}
	if e.ctx != nil && e.ctx.Pkg != nil {
		if o := e.ctx.Pkg.Scope().Lookup(name); o != nil {
			return e.pkgObject(o)
		}
	}
	if e.vc != nil && e.lookup != nil && !e.rebinding {
		if alt, ok := e.vc.rebindName(name); ok {
			e2 := *e
			e2.rebinding = true
			if v, err := e2.evalIdent(alt); err == nil {
				return v, nil
			}
		}
	}
	return SVal{}, fmt.Errorf("spec expr: unknown identifier %q", name)
}

func (e *Env) pkgObject(o types.Object) (SVal, error) {
	vc := e.vc
	switch ob := o.(type) {
	case *types.Const:
		return SVal{vc.constTerm(ob.Val(), ob.Type()), ob.Type()}, nil
	case *types.Var:
		g := vc.globalRef(ob)
		return SVal{vc.load(e.st, g, vc.tc.SortOf(ob.Type())), ob.Type()}, nil
	case *types.Func:
		return SVal{vc.funcValue(funcObjKey(ob)), ob.Type()}, nil
	}
	return SVal{}, fmt.Errorf("spec expr: unsupported package object %s", o.Name())
}

func (e *Env) importOf(x ast.Expr) *types.Package {
	id, ok := x.(*ast.Ident)
	if !ok || e.ctx == nil {
		return nil
	}
	if _, shadow := e.vars[id.Name]; shadow {
		return nil
	}
	if e.lookup != nil {
		if _, ok := e.lookup(id.Name, e.st); ok {
			return nil
		}
	}
	return e.ctx.Imports[id.Name]
}

// fieldPath finds the index path to field `name` in struct type t (through embedded fields).
func fieldPath(t types.Type, name string, depth int) ([]int, bool) {
	st, ok := under(derefType(t)).(*types.Struct)
	if !ok || depth > 4 {
		return nil, false
	}
	for i := 0; i < st.NumFields(); i++ {
		if st.Field(i).Name() == name {
			return []int{i}, true
		}
	}
	for i := 0; i < st.NumFields(); i++ {
		f := st.Field(i)
		if f.Embedded() {
			if p, ok := fieldPath(f.Type(), name, depth+1); ok {
				return append([]int{i}, p...), true
			}
		}
	}
	return nil, false
}

func derefType(t types.Type) types.Type {
	if p, ok := under(t).(*types.Pointer); ok {
		return p.Elem()
	}
	return t
}

func (e *Env) evalSelector(n *ast.SelectorExpr) (SVal, error) {
	if ip := e.importOf(n.X); ip != nil {
		o := ip.Scope().Lookup(n.Sel.Name)
		if o == nil {
			return SVal{}, fmt.Errorf("spec expr: %s.%s not found", ip.Name(), n.Sel.Name)
		}
		return e.pkgObject(o)
	}
	v, err := e.Eval(n.X)
	if err != nil {
		return SVal{}, err
	}
	return e.selectField(v, n.Sel.Name)
}

func (e *Env) selectField(v SVal, name string) (SVal, error) {
	vc := e.vc
	if v.Ty == nil {
		return SVal{}, fmt.Errorf("spec expr: field %s of untyped value", name)
	}
	path, ok := fieldPath(v.Ty, name, 0)
	if !ok {
		return SVal{}, fmt.Errorf("spec expr: no field %s in %s", name, typeString(v.Ty))
	}
	cur := v
	for _, idx := range path {
		if _, isPtr := under(cur.Ty).(*types.Pointer); isPtr {
			st := under(derefType(cur.Ty)).(*types.Struct)
			ft := st.Field(idx).Type()
			cur = SVal{vc.load(e.st, vc.fldAddr(cur.T, idx), vc.tc.SortOf(ft)), ft}
			e.loadedWF(cur)
		} else {
			st, ok := under(cur.Ty).(*types.Struct)
			if !ok {
				return SVal{}, fmt.Errorf("spec expr: field %s of non-struct %s", name, typeString(cur.Ty))
			}
			vc.tc.SortOf(cur.Ty)
			ft := st.Field(idx).Type()
			cur = SVal{vc.tc.FieldSel(cur.T, idx), ft}
			e.loadedWF(cur)
		}
	}
	return cur, nil
}

// Addr computes the address of an lvalue expression.
func (e *Env) Addr(x ast.Expr) (Term, types.Type, error) {
	vc := e.vc
	switch n := x.(type) {
	case *ast.ParenExpr:
		return e.Addr(n.X)
	case *ast.StarExpr:
		v, err := e.Eval(n.X)
		if err != nil {
			return Term{}, nil, err
		}
		pt, ok := under(v.Ty).(*types.Pointer)
		if !ok {
			return Term{}, nil, fmt.Errorf("spec expr: * of non-pointer")
		}
		return v.T, pt.Elem(), nil
	case *ast.SelectorExpr:
		if ip := e.importOf(n.X); ip != nil {
			o := ip.Scope().Lookup(n.Sel.Name)
			if gv, ok := o.(*types.Var); ok {
				return vc.globalRef(gv), gv.Type(), nil
			}
			return Term{}, nil, fmt.Errorf("spec expr: not addressable %s", exprString(x))
		}
		// base must be pointer or addressable
		var base Term
		var bty types.Type
		bv, err := e.Eval(n.X)
		if err == nil {
			if _, isPtr := under(bv.Ty).(*types.Pointer); isPtr {
				base, bty = bv.T, derefType(bv.Ty)
			}
		}
		if bty == nil {
			a, t, err2 := e.Addr(n.X)
			if err2 != nil {
				if err != nil {
					return Term{}, nil, err
				}
				return Term{}, nil, err2
			}
			base, bty = a, t
		}
		path, ok := fieldPath(bty, n.Sel.Name, 0)
		if !ok {
			return Term{}, nil, fmt.Errorf("spec expr: no field %s in %s", n.Sel.Name, typeString(bty))
		}
		cur, cty := base, bty
		for _, idx := range path {
			if _, isPtr := under(cty).(*types.Pointer); isPtr {
				cur = vc.load(e.st, cur, SRef)
				cty = derefType(cty)
			}
			st := under(cty).(*types.Struct)
			cur = vc.fldAddr(cur, idx)
			cty = st.Field(idx).Type()
		}
		return cur, cty, nil
	case *ast.IndexExpr:
		v, err := e.Eval(n.X)
		if err != nil {
			return Term{}, nil, err
		}
		i, err := e.Eval(n.Index)
		if err != nil {
			return Term{}, nil, err
		}
		if sl, ok := under(v.Ty).(*types.Slice); ok {
			return slElem(v.T, i.T), sl.Elem(), nil
		}
		if pt, ok := under(v.Ty).(*types.Pointer); ok {
			if at, ok := under(pt.Elem()).(*types.Array); ok {
				return vc.elemAddr(v.T, i.T), at.Elem(), nil
			}
		}
		return Term{}, nil, fmt.Errorf("spec expr: index address of %s", typeString(v.Ty))
	case *ast.Ident:
		if e.ctx != nil && e.ctx.Pkg != nil {
			if _, local := e.vars[n.Name]; !local {
				if gv, ok := e.ctx.Pkg.Scope().Lookup(n.Name).(*types.Var); ok {
					return vc.globalRef(gv), gv.Type(), nil
				}
			}
		}
	}
	return Term{}, nil, fmt.Errorf("spec expr: not addressable: %s", exprString(x))
}

func (e *Env) evalIndex(n *ast.IndexExpr) (SVal, error) {
	vc := e.vc
	v, err := e.Eval(n.X)
	if err != nil {
		return SVal{}, err
	}
	i, err := e.Eval(n.Index)
	if err != nil {
		return SVal{}, err
	}
	switch t := under(v.Ty).(type) {
	case *types.Slice:
		addr := slElem(v.T, i.T)
		r := SVal{vc.load(e.st, addr, vc.tc.SortOf(t.Elem())), t.Elem()}
		return r, nil
	case *types.Map:
		i = e.coerce(i, t.Key())
		return SVal{vc.mapLookup(e.st, v.T, i.T, t), t.Elem()}, nil
	case *types.Array:
		return SVal{Select(v.T, i.T, vc.tc.SortOf(t.Elem())), t.Elem()}, nil
	case *types.Basic:
		if t.Info()&types.IsString != 0 {
			return SVal{App(SInt, "str_byte", v.T, i.T), types.Typ[types.Byte]}, nil
		}
	case *types.Pointer:
		if at, ok := under(t.Elem()).(*types.Array); ok {
			return SVal{vc.load(e.st, vc.elemAddr(v.T, i.T), vc.tc.SortOf(at.Elem())), at.Elem()}, nil
		}
	}
	return SVal{}, fmt.Errorf("spec expr: cannot index %s", typeString(v.Ty))
}

// coerce adapts untyped constants (nil, ints) to a target type.
func (e *Env) coerce(v SVal, to types.Type) SVal {
	if v.T.Sort == "Nil" && to != nil {
		return SVal{e.vc.tc.Zero(e.vc.tc.SortOf(to)), to}
	}
	return v
}

func (e *Env) nilCompare(v SVal) Term {
	switch v.T.Sort {
	case SSlice:
		return Eq(App(SRef, "sarr", v.T), Null)
	case SFn:
		return Eq(App(SInt, "fn_id", v.T), IntLit(0))
	}
	return Eq(v.T, e.vc.tc.Zero(v.T.Sort))
}

func (e *Env) evalBinary(n *ast.BinaryExpr) (SVal, error) {
	boolT := types.Typ[types.Bool]
	switch n.Op {
	case token.LAND, token.LOR:
		a, err := e.Bool(n.X)
		if err != nil {
			return SVal{}, err
		}
		b, err := e.Bool(n.Y)
		if err != nil {
			return SVal{}, err
		}
		if n.Op == token.LAND {
			return SVal{And(a, b), boolT}, nil
		}
		return SVal{Or(a, b), boolT}, nil
	}
	a, err := e.Eval(n.X)
	if err != nil {
		return SVal{}, err
	}
	b, err := e.Eval(n.Y)
	if err != nil {
		return SVal{}, err
	}
	switch n.Op {
	case token.EQL, token.NEQ:
		var eq Term
		switch {
		case a.T.Sort == "Nil" && b.T.Sort == "Nil":
			eq = True
		case b.T.Sort == "Nil":
			eq = e.nilCompare(a)
		case a.T.Sort == "Nil":
			eq = e.nilCompare(b)
		default:
			if a.T.Sort != b.T.Sort {
				return SVal{}, fmt.Errorf("spec expr: comparing %s with %s in %s", a.T.Sort, b.T.Sort, exprString(n))
			}
			eq = Eq(a.T, b.T)
		}
		if n.Op == token.NEQ {
			eq = Not(eq)
		}
		return SVal{eq, boolT}, nil
	case token.LSS, token.LEQ, token.GTR, token.GEQ:
		op := map[token.Token]string{token.LSS: "<", token.LEQ: "<=", token.GTR: ">", token.GEQ: ">="}[n.Op]
		if a.T.Sort == SString {
			switch n.Op {
			case token.LSS:
				return SVal{App(SBool, "str.<", a.T, b.T), boolT}, nil
			case token.LEQ:
				return SVal{App(SBool, "str.<=", a.T, b.T), boolT}, nil
			case token.GTR:
				return SVal{App(SBool, "str.<", b.T, a.T), boolT}, nil
			default:
				return SVal{App(SBool, "str.<=", b.T, a.T), boolT}, nil
			}
		}
		return SVal{App(SBool, op, a.T, b.T), boolT}, nil
	case token.ADD:
		if a.T.Sort == SString {
			return SVal{App(SString, "str.++", a.T, b.T), a.Ty}, nil
		}
		return SVal{App(SInt, "+", a.T, b.T), pickType(a, b)}, nil
	case token.SUB:
		return SVal{App(SInt, "-", a.T, b.T), pickType(a, b)}, nil
	case token.MUL:
		return SVal{App(SInt, "*", a.T, b.T), pickType(a, b)}, nil
	case token.QUO:
		return SVal{App(SInt, "go_div", a.T, b.T), pickType(a, b)}, nil
	case token.REM:
		return SVal{App(SInt, "go_mod", a.T, b.T), pickType(a, b)}, nil
	}
	return SVal{}, fmt.Errorf("spec expr: unsupported operator %s", n.Op)
}

func pickType(a, b SVal) types.Type {
	if a.Ty != nil && a.Ty != untypedInt {
		return a.Ty
	}
	return b.Ty
}

func identName(x ast.Expr) (string, bool) {
	id, ok := x.(*ast.Ident)
	if !ok {
		return "", false
	}
	return id.Name, true
}

func (e *Env) evalCall(n *ast.CallExpr) (SVal, error) {
	vc := e.vc
	boolT := types.Typ[types.Bool]
	intT := types.Typ[types.Int]
	fname, isIdent := identName(n.Fun)
	argc := len(n.Args)
	need := func(k int) error {
		if argc != k {
			return fmt.Errorf("spec expr: %s expects %d arguments", fname, k)
		}
		return nil
	}
	if isIdent {
		if _, shadow := e.vars[fname]; shadow {
			isIdent = false
		}
	}
	if isIdent {
		switch fname {
		case "implies", "iff":
			if err := need(2); err != nil {
				return SVal{}, err
			}
			a, err := e.Bool(n.Args[0])
			if err != nil {
				return SVal{}, err
			}
			b, err := e.Bool(n.Args[1])
			if err != nil {
				return SVal{}, err
			}
			if fname == "implies" {
				return SVal{Implies(a, b), boolT}, nil
			}
			return SVal{Eq(a, b), boolT}, nil
		case "old":
			if err := need(1); err != nil {
				return SVal{}, err
			}
			c := e.child()
			c.st = e.old
			return c.Eval(n.Args[0])
		case "len", "cap":
			if err := need(1); err != nil {
				return SVal{}, err
			}
			v, err := e.Eval(n.Args[0])
			if err != nil {
				return SVal{}, err
			}
			switch t := under(v.Ty).(type) {
			case *types.Slice:
				if fname == "cap" {
					return SVal{App(SInt, "scap", v.T), intT}, nil
				}
				return SVal{App(SInt, "slen", v.T), intT}, nil
			case *types.Map:
				return SVal{vc.mapLen(e.st, v.T, t), intT}, nil
			case *types.Array:
				return SVal{IntLit(t.Len()), intT}, nil
			case *types.Basic:
				return SVal{App(SInt, "str.len", v.T), intT}, nil
			}
			return SVal{}, fmt.Errorf("spec expr: len of %s", typeString(v.Ty))
		case "forall", "exists":
			return e.evalQuant(n, fname)
		case "forallkeys", "existskey":
			if err := need(3); err != nil {
				return SVal{}, err
			}
			kname, ok := identName(n.Args[0])
			if !ok {
				return SVal{}, fmt.Errorf("spec expr: forallkeys: first argument must be an identifier")
			}
			m, err := e.Eval(n.Args[1])
			if err != nil {
				return SVal{}, err
			}
			mt, ok := under(m.Ty).(*types.Map)
			if !ok {
				return SVal{}, fmt.Errorf("spec expr: forallkeys over non-map")
			}
			bv := vc.boundVar(kname, vc.tc.SortOf(mt.Key()))
			c := e.child()
			c.inQuant = true
			c.vars[kname] = SVal{bv, mt.Key()}
			body, err := c.Bool(n.Args[2])
			if err != nil {
				return SVal{}, err
			}
			has := vc.mapHas(e.st, m.T, bv, mt)
			if fname == "forallkeys" {
				return SVal{Forall([]Term{bv}, Implies(has, body)), boolT}, nil
			}
			return SVal{Exists([]Term{bv}, And(has, body)), boolT}, nil
		case "has":
			if err := need(2); err != nil {
				return SVal{}, err
			}
			m, err := e.Eval(n.Args[0])
			if err != nil {
				return SVal{}, err
			}
			k, err := e.Eval(n.Args[1])
			if err != nil {
				return SVal{}, err
			}
			mt, ok := under(m.Ty).(*types.Map)
			if !ok {
				return SVal{}, fmt.Errorf("spec expr: has() on non-map")
			}
			return SVal{vc.mapHas(e.st, m.T, k.T, mt), boolT}, nil
		case "fresh":
			if err := need(1); err != nil {
				return SVal{}, err
			}
			v, err := e.Eval(n.Args[0])
			if err != nil {
				return SVal{}, err
			}
			r := v.T
			if r.Sort == SSlice {
				r = App(SRef, "sarr", r)
			}
			if r.Sort != SRef {
				return SVal{}, fmt.Errorf("spec expr: fresh() of non-reference")
			}
			oldAlloc := vc.cur(e.old, "alloc")
			return SVal{And(Not(Eq(r, Null)), Not(Select(oldAlloc, App(SRef, "root", r), SBool))), boolT}, nil
		case "newsince":
			// the object was allocated after the enclosing loop started (or the reference is nil)
			if e.loopAlloc.S == "" {
				return SVal{}, fmt.Errorf("spec expr: newsince() outside a loop invariant")
			}
			v, err := e.Eval(n.Args[0])
			if err != nil {
				return SVal{}, err
			}
			r := v.T
			if r.Sort == SSlice {
				r = App(SRef, "sarr", r)
			}
			return SVal{Or(Eq(r, Null), Not(Select(e.loopAlloc, App(SRef, "root", r), SBool))), boolT}, nil
		case "allocated":
			v, err := e.Eval(n.Args[0])
			if err != nil {
				return SVal{}, err
			}
			r := v.T
			if r.Sort == SSlice {
				r = App(SRef, "sarr", r)
			}
			return SVal{Select(vc.cur(e.st, "alloc"), App(SRef, "root", r), SBool), boolT}, nil
		case "sameobj":
			a, err := e.Eval(n.Args[0])
			if err != nil {
				return SVal{}, err
			}
			b, err := e.Eval(n.Args[1])
			if err != nil {
				return SVal{}, err
			}
			ra, rb := a.T, b.T
			if ra.Sort == SSlice {
				ra = App(SRef, "sarr", ra)
			}
			if rb.Sort == SSlice {
				rb = App(SRef, "sarr", rb)
			}
			return SVal{Eq(App(SRef, "root", ra), App(SRef, "root", rb)), boolT}, nil
		case "nonnil":
			v, err := e.Eval(n.Args[0])
			if err != nil {
				return SVal{}, err
			}
			return SVal{Not(e.nilCompare(v)), boolT}, nil
		case "typeis":
			if err := need(2); err != nil {
				return SVal{}, err
			}
			v, err := e.Eval(n.Args[0])
			if err != nil {
				return SVal{}, err
			}
			ty, err := resolveTypeExpr(e.ctx, n.Args[1])
			if err != nil {
				return SVal{}, err
			}
			if it, isIface := under(ty).(*types.Interface); isIface {
				// typeis(x, I) for an interface type I: x holds a value whose type implements I
				if it.Empty() {
					return SVal{Not(Eq(v.T, Term{"nil_iface", SIface})), boolT}, nil
				}
				return SVal{And(Not(Eq(v.T, Term{"nil_iface", SIface})), App(SBool, "implements", App(SInt, "ityp", v.T), IntLit(int64(vc.tc.IfaceID(ty))))), boolT}, nil
			}
			return SVal{Eq(App(SInt, "ityp", v.T), IntLit(int64(vc.tc.TypeID(ty)))), boolT}, nil
		case "errorsNewValue":
			// the value was made by errors.New (dynamic type *errors.errorString, which no repository type is)
			if err := need(1); err != nil {
				return SVal{}, err
			}
			v, err := e.Eval(n.Args[0])
			if err != nil {
				return SVal{}, err
			}
			return SVal{Eq(App(SInt, "ityp", v.T), IntLit(errorsNewTypeID)), boolT}, nil
		case "ite":
			if err := need(3); err != nil {
				return SVal{}, err
			}
			c, err := e.Bool(n.Args[0])
			if err != nil {
				return SVal{}, err
			}
			a, err := e.Eval(n.Args[1])
			if err != nil {
				return SVal{}, err
			}
			b, err := e.Eval(n.Args[2])
			if err != nil {
				return SVal{}, err
			}
			a = e.coerce(a, b.Ty)
			b = e.coerce(b, a.Ty)
			return SVal{Ite(c, a.T, b.T), pickType(a, b)}, nil
		case "contains", "hasprefix", "hassuffix":
			if err := need(2); err != nil {
				return SVal{}, err
			}
			a, err := e.Eval(n.Args[0])
			if err != nil {
				return SVal{}, err
			}
			b, err := e.Eval(n.Args[1])
			if err != nil {
				return SVal{}, err
			}
			switch fname {
			case "contains":
				return SVal{App(SBool, "str.contains", a.T, b.T), boolT}, nil
			case "hasprefix":
				return SVal{App(SBool, "str.prefixof", b.T, a.T), boolT}, nil
			default:
				return SVal{App(SBool, "str.suffixof", b.T, a.T), boolT}, nil
			}
		case "in_re":
			if err := need(2); err != nil {
				return SVal{}, err
			}
			a, err := e.Eval(n.Args[0])
			if err != nil {
				return SVal{}, err
			}
			lit, ok := n.Args[1].(*ast.BasicLit)
			if !ok {
				return SVal{}, fmt.Errorf("spec expr: in_re needs a literal pattern")
			}
			pat, _ := strconv.Unquote(lit.Value)
			re, err := regexToSMT(pat)
			if err != nil {
				return SVal{}, err
			}
			return SVal{App(SBool, "str.in_re", a.T, Term{re, "RegLan"}), boolT}, nil
		case "visited":
			if err := need(1); err != nil {
				return SVal{}, err
			}
			if e.visKey == "" {
				return SVal{}, fmt.Errorf("spec expr: visited() outside a map-range loop")
			}
			k, err := e.Eval(n.Args[0])
			if err != nil {
				return SVal{}, err
			}
			return SVal{Select(vc.cur(e.st, e.visKey), k.T, SBool), boolT}, nil
		case "ranged":
			// the (possibly unnamed) slice the enclosing for-range loop iterates over
			if e.ranged == nil {
				return SVal{}, fmt.Errorf("spec expr: ranged() outside a for-range-over-slice loop invariant")
			}
			return *e.ranged, nil
		case "param":
			// the value a parameter had when the function was called (a local of the same name may shadow it)
			if err := need(1); err != nil {
				return SVal{}, err
			}
			pn, ok := identName(n.Args[0])
			if ok && e.params != nil {
				if v, ok := e.params[pn]; ok {
					return v, nil
				}
				return SVal{}, fmt.Errorf("spec expr: no parameter %s at this call", pn)
			}
			if !ok || vc.fn == nil {
				return SVal{}, fmt.Errorf("spec expr: param(name)")
			}
			for _, p := range vc.fn.Params {
				if p.Name() == pn {
					return SVal{vc.val(p), p.Type()}, nil
				}
			}
			return SVal{}, fmt.Errorf("spec expr: no parameter %s", pn)
		case "loopentry":
			// value of an expression when the enclosing loop was entered
			if e.loopEntry == nil {
				return SVal{}, fmt.Errorf("spec expr: loopentry() outside a loop invariant")
			}
			if err := need(1); err != nil {
				return SVal{}, err
			}
			le := *e.loopEntry
			le.ctx = e.ctx
			return le.Eval(n.Args[0])
		case "cardvisited":
			// number of keys of the ranged map visited so far
			if e.visKey == "" {
				return SVal{}, fmt.Errorf("spec expr: cardvisited() outside a map-range loop")
			}
			c := vc.comps[e.visKey]
			ks, _ := splitArraySort(c.sort)
			return SVal{App(SInt, vc.cardFn(ks), vc.cur(e.st, e.visKey)), types.Typ[types.Int]}, nil
		case "max", "min":
			a, err := e.Eval(n.Args[0])
			if err != nil {
				return SVal{}, err
			}
			b, err := e.Eval(n.Args[1])
			if err != nil {
				return SVal{}, err
			}
			if fname == "max" {
				return SVal{Ite(App(SBool, ">=", a.T, b.T), a.T, b.T), pickType(a, b)}, nil
			}
			return SVal{Ite(App(SBool, "<=", a.T, b.T), a.T, b.T), pickType(a, b)}, nil
		case "errIs":
			a, err := e.Eval(n.Args[0])
			if err != nil {
				return SVal{}, err
			}
			b, err := e.Eval(n.Args[1])
			if err != nil {
				return SVal{}, err
			}
			vc.tc.Declare("err_is", "(declare-fun err_is (Iface Iface) Bool)")
			return SVal{App(SBool, "err_is", a.T, b.T), boolT}, nil
		case "bitand", "bitor":
			if err := need(2); err != nil {
				return SVal{}, err
			}
			a, err := e.Eval(n.Args[0])
			if err != nil {
				return SVal{}, err
			}
			b, err := e.Eval(n.Args[1])
			if err != nil {
				return SVal{}, err
			}
			op := "bv_and"
			if fname == "bitor" {
				op = "bv_or"
			}
			return SVal{App(SInt, op, a.T, b.T), pickType(a, b)}, nil
		case "unboxptr":
			// the pointer held by an interface value (for `modifies *unboxptr(v)`)
			if err := need(1); err != nil {
				return SVal{}, err
			}
			a, err := e.Eval(n.Args[0])
			if err != nil {
				return SVal{}, err
			}
			return SVal{vc.tc.Unbox(SRef, a.T), types.NewPointer(types.NewStruct(nil, nil))}, nil
		case "box":
			// the interface value holding x (dynamic type = x's static type)
			if err := need(1); err != nil {
				return SVal{}, err
			}
			a, err := e.Eval(n.Args[0])
			if err != nil {
				return SVal{}, err
			}
			if a.Ty == nil {
				return SVal{}, fmt.Errorf("spec expr: box of untyped value")
			}
			return SVal{vc.tc.Box(a.Ty, a.T), types.NewInterfaceType(nil, nil)}, nil
		case "arrstr":
			// the bytes of a [N]byte array value as a string
			if err := need(1); err != nil {
				return SVal{}, err
			}
			a, err := e.Eval(n.Args[0])
			if err != nil {
				return SVal{}, err
			}
			if a.T.Sort != ArraySort(SInt, SInt) {
				return SVal{}, fmt.Errorf("spec expr: arrstr needs a byte array value")
			}
			return SVal{App(SString, "arr_str", a.T), types.Typ[types.String]}, nil
		case "zero":
			if err := need(1); err != nil {
				return SVal{}, err
			}
			ty, err := resolveTypeExpr(e.ctx, n.Args[0])
			if err != nil {
				return SVal{}, err
			}
			return SVal{vc.tc.Zero(vc.tc.SortOf(ty)), ty}, nil
		case "substr":
			a, err := e.Eval(n.Args[0])
			if err != nil {
				return SVal{}, err
			}
			lo, err := e.Eval(n.Args[1])
			if err != nil {
				return SVal{}, err
			}
			hi, err := e.Eval(n.Args[2])
			if err != nil {
				return SVal{}, err
			}
			return SVal{App(SString, "str.substr", a.T, lo.T, App(SInt, "-", hi.T, lo.T)), a.Ty}, nil
		}
		if pf := vc.S.Pure[fname]; pf != nil {
			return e.applyPure(pf, n)
		}
		// conversion to a universe / package type
		if e.ctx != nil {
			if ty, err := resolveTypeExpr(e.ctx, n.Fun); err == nil && argc == 1 {
				return e.convert(ty, n.Args[0])
			}
		}
		return SVal{}, fmt.Errorf("spec expr: unknown function %s", fname)
	}
	// qualified conversion pkg.T(x) or []byte(x)
	if ty, err := resolveTypeExpr(e.ctx, n.Fun); err == nil && argc == 1 {
		return e.convert(ty, n.Args[0])
	}
	return SVal{}, fmt.Errorf("spec expr: unsupported call %s", exprString(n))
}

func (e *Env) convert(ty types.Type, arg ast.Expr) (SVal, error) {
	v, err := e.Eval(arg)
	if err != nil {
		return SVal{}, err
	}
	ts := e.vc.tc.SortOf(ty)
	if v.T.Sort == "Nil" {
		return SVal{e.vc.tc.Zero(ts), ty}, nil
	}
	if v.T.Sort == ts {
		return SVal{v.T, ty}, nil
	}
	if ts == SString && v.T.Sort == SSlice {
		return SVal{App(SString, "bytes_str", v.T), ty}, nil
	}
	return SVal{}, fmt.Errorf("spec expr: unsupported conversion %s -> %s", v.T.Sort, ts)
}

func (e *Env) evalQuant(n *ast.CallExpr, q string) (SVal, error) {
	vc := e.vc
	boolT := types.Typ[types.Bool]
	if len(n.Args) != 4 && len(n.Args) != 3 {
		return SVal{}, fmt.Errorf("spec expr: %s(i, lo, hi, body) or %s(x, T, body)", q, q)
	}
	name, ok := identName(n.Args[0])
	if !ok {
		return SVal{}, fmt.Errorf("spec expr: %s: bound variable must be an identifier", q)
	}
	c := e.child()
	c.inQuant = true
	if len(n.Args) == 4 {
		lo, err := e.Eval(n.Args[1])
		if err != nil {
			return SVal{}, err
		}
		hi, err := e.Eval(n.Args[2])
		if err != nil {
			return SVal{}, err
		}
		bv := vc.boundVar(name, SInt)
		c.vars[name] = SVal{bv, types.Typ[types.Int]}
		body, err := c.Bool(n.Args[3])
		if err != nil {
			return SVal{}, err
		}
		rng := And(App(SBool, "<=", lo.T, bv), App(SBool, "<", bv, hi.T))
		if q == "forall" {
			return SVal{Forall([]Term{bv}, Implies(rng, body)), boolT}, nil
		}
		return SVal{Exists([]Term{bv}, And(rng, body)), boolT}, nil
	}
	ty, err := resolveTypeExpr(e.ctx, n.Args[1])
	if err != nil {
		return SVal{}, err
	}
	bv := vc.boundVar(name, vc.tc.SortOf(ty))
	c.vars[name] = SVal{bv, ty}
	body, err := c.Bool(n.Args[2])
	if err != nil {
		return SVal{}, err
	}
	if q == "forall" {
		return SVal{Forall([]Term{bv}, body), boolT}, nil
	}
	return SVal{Exists([]Term{bv}, body), boolT}, nil
}

func (e *Env) applyPure(pf *PureFunc, n *ast.CallExpr) (SVal, error) {
	vc := e.vc
	if len(n.Args) != len(pf.Params) {
		return SVal{}, fmt.Errorf("spec expr: %s expects %d arguments", pf.Name, len(pf.Params))
	}
	var args []SVal
	for i, a := range n.Args {
		v, err := e.Eval(a)
		if err != nil {
			return SVal{}, err
		}
		v = e.coerce(v, pf.PTypes[i])
		want := vc.tc.SortOf(pf.PTypes[i])
		if v.T.Sort != want {
			return SVal{}, fmt.Errorf("spec expr: %s argument %d: got %s want %s", pf.Name, i, v.T.Sort, want)
		}
		args = append(args, SVal{v.T, pf.PTypes[i]})
	}
	if pf.State {
		key, ks, vs := vc.ghostStateComp(pf)
		_ = ks
		return SVal{Select(vc.cur(e.st, key), args[0].T, vs), pf.RType}, nil
	}
	if pf.Body == nil {
		// uninterpreted ghost function
		rs := vc.tc.SortOf(pf.RType)
		var ps []string
		var ts []Term
		for i := range args {
			ps = append(ps, string(vc.tc.SortOf(pf.PTypes[i])))
			ts = append(ts, args[i].T)
		}
		sym := "gh_" + pf.Name
		vc.tc.Declare(sym, fmt.Sprintf("(declare-fun %s (%s) %s)", sym, strings.Join(ps, " "), rs))
		if len(ts) == 0 {
			return SVal{Term{sym, rs}, pf.RType}, nil
		}
		return SVal{App(rs, sym, ts...), pf.RType}, nil
	}
	if pf.Opaque {
		rs := vc.tc.SortOf(pf.RType)
		sym := "op_" + pf.Name
		if !vc.tc.extra[sym] {
			var ps []string
			var bvs []Term
			c := &Env{vc: vc, st: vc.entry, old: vc.entry, vars: map[string]SVal{}, ctx: pf.Ctx, depth: e.depth + 1, inQuant: true}
			for i, p := range pf.Params {
				srt := vc.tc.SortOf(pf.PTypes[i])
				ps = append(ps, string(srt))
				bv := vc.boundVar(p, srt)
				bvs = append(bvs, bv)
				c.vars[p] = SVal{bv, pf.PTypes[i]}
			}
			body, err := c.Eval(pf.Body)
			if err != nil {
				return SVal{}, fmt.Errorf("%v (in opaque func %s)", err, pf.Name)
			}
			app := App(rs, sym, bvs...)
			vc.tc.Declare(sym, fmt.Sprintf("(declare-fun %s (%s) %s)\n(assert %s)", sym, strings.Join(ps, " "), rs, Forall(bvs, Eq(app, body.T), app).S))
		}
		var ts []Term
		for i := range args {
			ts = append(ts, args[i].T)
		}
		return SVal{App(rs, sym, ts...), pf.RType}, nil
	}
	if e.depth > 12 {
		return SVal{}, fmt.Errorf("spec expr: pure function nesting too deep (recursion?) at %s", pf.Name)
	}
	c := &Env{vc: vc, st: e.st, old: e.old, vars: map[string]SVal{}, ctx: pf.Ctx, depth: e.depth + 1, visKey: e.visKey, inQuant: e.inQuant, loopAlloc: e.loopAlloc}
	for i, p := range pf.Params {
		c.vars[p] = args[i]
	}
	v, err := c.Eval(pf.Body)
	if err != nil {
		return SVal{}, fmt.Errorf("%v (in pure func %s)", err, pf.Name)
	}
	v = c.coerce(v, pf.RType)
	return SVal{v.T, pf.RType}, nil
}

// loadedWF records the heap well-formedness fact for a ground value loaded by a spec expression:
// a reference stored in the heap points to an allocated object (or is nil).
func (e *Env) loadedWF(v SVal) {
	if e.inQuant || v.Ty == nil {
		return
	}
	switch v.T.Sort {
	case SRef, SSlice:
		f := e.vc.allocFacts(e.st, v.T, v.Ty, 0)
		if f.S != "true" {
			e.vc.assume(True, f)
		}
		if st, ok := under(v.Ty).(*types.Slice); ok {
			e.vc.assume(True, e.vc.arrayTyped(v.T, st))
		}
		if pt, ok := under(v.Ty).(*types.Pointer); ok {
			e.vc.assume(True, e.vc.pointerTyped(v.T, pt))
		}
	}
}
