package main

import (
	"fmt"
	"os"
	"sort"
	"strings"
	"sync"
)

type RunOpts struct {
	TimeoutS int
	Solvers  []string
	TmpDir   string
	Jobs     int
	KeepDir  string
	Verbose  bool
}

// Discharge runs all obligations in parallel.
func Discharge(vcs []*FuncVC, opts RunOpts) {
	type job struct {
		vc *FuncVC
		o  *Obligation
	}
	var jobs []job
	for _, vc := range vcs {
		for _, o := range vc.obls {
			jobs = append(jobs, job{vc, o})
		}
	}
	ch := make(chan job)
	var wg sync.WaitGroup
	for i := 0; i < opts.Jobs; i++ {
		wg.Add(1)
		go func() {
			defer wg.Done()
			for j := range ch {
				q := j.vc.Query(j.o)
				to := opts.TimeoutS
				solvers := opts.Solvers
				if j.o.Cover {
					to = 1
					solvers = solvers[:1]
				}
				if opts.KeepDir != "" {
					os.WriteFile(opts.KeepDir+"/"+mangle(j.o.Name)+".smt2", []byte(q+"\n(check-sat)\n(get-model)\n"), 0o644)
				}
				r := RunQuery(opts.TmpDir, j.o.Name, q, to, solvers)
				j.o.Result = r
				if j.o.Cover {
					j.o.OK = r.Status != "unsat"
				} else {
					j.o.OK = r.Status == "unsat"
				}
			}
		}()
	}
	for _, j := range jobs {
		ch <- j
	}
	close(ch)
	wg.Wait()
}

func cmdVC(args []string) int {
	P, err := LoadProgram()
	if err != nil {
		fmt.Fprintln(os.Stderr, err)
		return 2
	}
	S, err := LoadSpecs(P, "/verif/contracts")
	if err != nil {
		fmt.Fprintln(os.Stderr, err)
		return 2
	}
	keep := os.Getenv("GOVC_KEEPDIR")
	tmp, _ := os.MkdirTemp("", "govc-")
	defer os.RemoveAll(tmp)
	var vcs []*FuncVC
	for _, k := range args {
		insts := P.Instances(k)
		if len(insts) == 0 {
			fmt.Println("no such function:", k)
			continue
		}
		for _, fn := range insts {
			vc := NewFuncVC(P, S, fn, S.Contracts[k])
			vc.Encode()
			vcs = append(vcs, vc)
			for _, e := range vc.errs {
				fmt.Println("ERROR", k, e)
			}
			for _, u := range vc.unsupported {
				fmt.Println("UNSUPPORTED", k, u)
			}
		}
	}
	Discharge(vcs, RunOpts{TimeoutS: 30, Solvers: []string{"z3-new", "z3", "cvc5"}, TmpDir: tmp, Jobs: 8, KeepDir: keep})
	bad := 0
	for _, vc := range vcs {
		sort.SliceStable(vc.obls, func(i, j int) bool { return vc.obls[i].Name < vc.obls[j].Name })
		for _, o := range vc.obls {
			st := "ok  "
			if !o.OK {
				st = "FAIL"
				bad++
			}
			fmt.Printf("%s %-60s %-8s %-7s %5.2fs %s  | %s\n", st, o.Name, o.Result.Status, o.Result.Solver, o.Result.Seconds, o.Where, trunc(o.Desc, 100))
		}
		var ks []string
		for k := range vc.defaulted {
			ks = append(ks, k)
		}
		sort.Strings(ks)
		fmt.Println("  default-contract callees:", strings.Join(ks, ", "))
		ks = ks[:0]
		for k := range vc.assumed {
			ks = append(ks, k)
		}
		sort.Strings(ks)
		fmt.Println("  assumed contracts:", strings.Join(ks, ", "))
		for _, n := range vc.notes {
			fmt.Println("  note:", n)
		}
	}
	if bad > 0 {
		return 1
	}
	return 0
}

func trunc(s string, n int) string {
	if len(s) > n {
		return s[:n] + "…"
	}
	return s
}
