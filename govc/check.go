package main

import (
	"fmt"
	"os"
	"sort"
	"strings"
	"sync"
)

type RunOpts struct {
	TimeoutS int
	Solvers  []string
	TmpDir   string
	Jobs     int
	KeepDir  string
	Verbose  bool
	Hints    *HintDB         // nil: no hints
	Record   bool            // record unsat cores of obligations that needed the full query
	Cross    int             // thorough tier: also run the FULL query of every hint-discharged obligation for this many seconds
	Fresh    bool            // thorough tier: vacuity guards are re-run, not taken from the record
	Short    map[string]bool // obligations listed as known findings: expected not to discharge, tried for 10 s only
}

// Discharge runs all obligations in parallel.
func Discharge(vcs []*FuncVC, opts RunOpts) {
	type job struct {
		vc *FuncVC
		o  *Obligation
	}
	var jobs []job
	for _, vc := range vcs {
		for _, o := range vc.obls {
			jobs = append(jobs, job{vc, o})
		}
	}
	ch := make(chan job)
	var wg sync.WaitGroup
	for i := 0; i < opts.Jobs; i++ {
		wg.Add(1)
		go func() {
			defer wg.Done()
			for j := range ch {
				q := j.vc.Query(j.o)
				to := opts.TimeoutS
				solvers := opts.Solvers
				if j.o.Cover {
					to = 1
					solvers = solvers[:1]
				} else if opts.Short[j.o.Name] && to > 10 {
					to = 10
				}
				if opts.KeepDir != "" {
					os.WriteFile(opts.KeepDir+"/"+mangle(j.o.Name)+".smt2", []byte(q+"\n(check-sat)\n(get-model)\n"), 0o644)
				}
				var r SolverResult
				hinted := false
				if j.o.Cover && opts.Fresh {
					to = 3
				}
				if j.o.Cover && opts.Hints != nil && !opts.Fresh {
					// vacuity guards: a guard whose query text is byte-identical to one recorded as "not refuted"
					// needs no new run (same text, same answer); any change to the text re-runs it
					qh := "cover:" + rawHash(q)
					if hs := opts.Hints.Get(j.o.Name); len(hs) == 1 && len(hs[0]) == 1 && hs[0][0] == qh {
						j.o.Result = SolverResult{Status: "unknown", Solver: "recorded"}
						j.o.OK = true
						continue
					}
				}
				if !j.o.Cover && opts.Hints != nil {
					for _, hs := range opts.Hints.Get(j.o.Name) {
						sq, ok := sliceByHint(q, hs)
						if !ok {
							// the code or a contract changed: hinted hypotheses still present + all new hypotheses
							if sq, ok = sliceTolerant(q, hs, opts.Hints.allOf(j.o.Name)); !ok {
								continue
							}
						}
						ht := to
						if ht > 10 {
							ht = 10
						}
						hr := RunQuery(opts.TmpDir, j.o.Name+".hint", sq, ht, solvers)
						if hr.Status == "unsat" {
							hr.Solver += "+hint"
							r, hinted = hr, true
						}
						break
					}
				}
				if !hinted {
					r = RunQuery(opts.TmpDir, j.o.Name, q, to, solvers)
					if opts.Record && opts.Hints != nil && !j.o.Cover && r.Status == "unsat" {
						hs, ok := extractCore(opts.TmpDir, j.o.Name, q, 2*to)
						if !ok && r.Seconds > 1 {
							hs, ok = shrinkCore(opts.TmpDir, j.o.Name, q, r.Seconds, solvers)
						}
						if ok {
							if sq, ok := sliceByHint(q, hs); ok {
								if cr := RunQuery(opts.TmpDir, j.o.Name+".hint", sq, 10, solvers); cr.Status == "unsat" && cr.Seconds < 5 {
									opts.Hints.Put(j.o.Name, hs)
								}
							}
						}
					}
				}
				if opts.Record && opts.Hints != nil && !j.o.Cover {
					opts.Hints.AddAll(j.o.Name, q)
				}
				j.o.Result = r
				j.o.Hinted = hinted
				if hinted && opts.Cross > 0 {
					fr := RunQuery(opts.TmpDir, j.o.Name+".full", q, opts.Cross, solvers)
					j.o.FullStatus = fr.Status
					j.o.FullSeconds = fr.Seconds
				}
				if j.o.Cover && opts.Record && opts.Hints != nil && r.Status != "unsat" {
					opts.Hints.Put(j.o.Name, []string{"cover:" + rawHash(q)})
				}
				if j.o.Cover {
					j.o.OK = r.Status != "unsat"
					if !j.o.OK && strings.Contains(j.o.Desc, "return site") {
						// unreachable from the precondition alone: defensive dead code, not a vacuous proof
						er := RunQuery(opts.TmpDir, j.o.Name+".entry", j.vc.QueryEntryOnly(j.o), 2, solvers)
						if er.Status == "unsat" {
							j.o.OK = true
							j.o.Result.Status = "dead-under-precondition"
						}
					}
				} else {
					j.o.OK = r.Status == "unsat"
				}
			}
		}()
	}
	for _, j := range jobs {
		ch <- j
	}
	close(ch)
	wg.Wait()
	// second chance for undecided obligations: an answer of "unknown"/"timeout" under a loaded machine is not a
	// refutation; up to four of them are run again, side by side, with one and a half times the time. Only "unsat" changes
	// anything, so a retry can never hide a violation the solvers can exhibit.
	var again []job
	for _, j := range jobs {
		if !j.o.Cover && !j.o.OK && j.o.Result.Status != "sat" && !opts.Short[j.o.Name] && len(again) < 4 {
			again = append(again, j)
		}
	}
	if len(again) > 0 {
		sem := make(chan struct{}, 4)
		var wg2 sync.WaitGroup
		for _, j := range again {
			wg2.Add(1)
			sem <- struct{}{}
			go func(j job) {
				defer wg2.Done()
				defer func() { <-sem }()
				r := RunQuery(opts.TmpDir, j.o.Name+".retry", j.vc.Query(j.o), opts.TimeoutS+opts.TimeoutS/2, opts.Solvers)
				if r.Status == "unsat" {
					r.Solver += "+retry"
					j.o.Result = r
					j.o.OK = true
				}
			}(j)
		}
		wg2.Wait()
	}
}

func cmdVC(args []string) int {
	P, err := LoadProgram()
	if err != nil {
		fmt.Fprintln(os.Stderr, err)
		return 2
	}
	S, err := LoadSpecs(P, "/verif/contracts")
	if err != nil {
		fmt.Fprintln(os.Stderr, err)
		return 2
	}
	keep := os.Getenv("GOVC_KEEPDIR")
	tmp, _ := os.MkdirTemp("", "govc-")
	defer os.RemoveAll(tmp)
	var vcs []*FuncVC
	for _, k := range args {
		insts := P.Instances(k)
		if len(insts) == 0 {
			fmt.Println("no such function:", k)
			continue
		}
		for _, fn := range insts {
			vc := NewFuncVC(P, S, fn, S.Contracts[k])
			vc.Encode()
			vcs = append(vcs, vc)
			for _, e := range vc.errs {
				fmt.Println("ERROR", k, e)
			}
			for _, u := range vc.unsupported {
				fmt.Println("UNSUPPORTED", k, u)
			}
		}
	}
	ro := RunOpts{TimeoutS: 30, Solvers: []string{"z3-new", "z3", "cvc5"}, TmpDir: tmp, Jobs: 8, KeepDir: keep}
	if os.Getenv("GOVC_NOHINTS") == "" {
		ro.Hints = NewHintDB()
		ro.Record = os.Getenv("GOVC_RECORD") != ""
	}
	Discharge(vcs, ro)
	if ro.Hints != nil {
		ro.Hints.Save()
	}
	bad := 0
	for _, vc := range vcs {
		sort.SliceStable(vc.obls, func(i, j int) bool { return vc.obls[i].Name < vc.obls[j].Name })
		for _, o := range vc.obls {
			st := "ok  "
			if !o.OK {
				st = "FAIL"
				bad++
			}
			fmt.Printf("%s %-60s %-8s %-7s %5.2fs %s  | %s\n", st, o.Name, o.Result.Status, o.Result.Solver, o.Result.Seconds, o.Where, trunc(o.Desc, 100))
		}
		var ks []string
		for k := range vc.defaulted {
			ks = append(ks, k)
		}
		sort.Strings(ks)
		fmt.Println("  default-contract callees:", strings.Join(ks, ", "))
		ks = ks[:0]
		for k := range vc.assumed {
			ks = append(ks, k)
		}
		sort.Strings(ks)
		fmt.Println("  assumed contracts:", strings.Join(ks, ", "))
		for _, n := range vc.notes {
			fmt.Println("  note:", n)
		}
	}
	if bad > 0 {
		return 1
	}
	return 0
}

func trunc(s string, n int) string {
	if len(s) > n {
		return s[:n] + "…"
	}
	return s
}
